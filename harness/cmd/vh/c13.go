package main

// C13 — package visibility is coherent with the use/export graph after any history.
//
// Correspondence: histories of defpackage / in-package / use-package / unuse-package / export /
// unexport / defvar / setq / defun / makunbound / fmakunbound over 3 user packages x 2 names (each
// name is used both as a variable and as a function) are executed on the real interpreter (as
// Lisp text, in worker processes because package state is process-global) and on the Lean model
// (SlipVerif.Model.Pkg through "pkg run …"). At every observation point every name is resolved
// from every package: boundp + symbol-value + plain evaluation, fboundp + funcall + direct call, and
// the qualified forms q:n, q::n, (q:n 0), (q::n 0); the vectors must be equal item by item.
//
// Families: sweep (fixed prefixes x every single operation; seed independent; the only cells a
// known finding may excuse), random histories (both tiers), bounded-exhaustive histories over a
// reduced alphabet (thorough tier).

import (
	"bufio"
	"bytes"
	"fmt"
	"os"
	"os/exec"
	"runtime"
	"sort"
	"strconv"
	"strings"
	"sync"

	"github.com/ohler55/slip"
	"verif/harness/lib"
)

func init() {
	props["C13"] = runC13
	props["C13-worker"] = c13Worker
}

const (
	c13NPk = 3
	c13NNm = 2
	// bounds of the bounded-exhaustive families (thorough tier)
	c13ExhLen2 = 5 // two packages, one name, 11 operations
	c13ExhLen3 = 5 // three packages, one name, 14 operations
)

var c13Names = []string{"qxa", "qxb"}

// ---------------------------------------------------------------------------------------------
// operations

type c13Op struct {
	kind string // P I U X E Z V W S F M K G O   Q D H N T
	a, b int    // P: a=pkg; I: a=pkg; U/X: a=obj b=pkg; E/Z: a=pkg b=name; V/S/F/G: a=name b=tag; W/M/K: a=name
	// Q (setq q:n v / q::n), D (defvar q:n [v] / q::n), H (defun q::n), N (unintern 'n 'q), T (intern "n" 'q):
	// a=pkg b=name v=tag (D: -1 = no initial value) priv = written with two colons
	v    int
	priv bool
	us   []int // P: uses
	ex   []int // P: exports
	one  bool  // U/X/E/Z: written in the one-argument form (acts on the current package)
	exp  bool  // G: exported (FuncDoc.NoExport = false)
}

func c13Ints(xs []int) string {
	s := make([]string, len(xs))
	for i, x := range xs {
		s[i] = strconv.Itoa(x)
	}
	return strings.Join(s, ".")
}

func (o c13Op) token() string {
	switch o.kind {
	case "P":
		return fmt.Sprintf("P%d:%s:%s", o.a, c13Ints(o.us), c13Ints(o.ex))
	case "I", "W", "M", "K":
		return fmt.Sprintf("%s%d", o.kind, o.a)
	case "O":
		return "O"
	case "G":
		e := 0
		if o.exp {
			e = 1
		}
		return fmt.Sprintf("G%d:%d:%d", o.a, o.b, e)
	case "U", "X", "E", "Z":
		if o.one {
			return fmt.Sprintf("%s%d:%d:1", o.kind, o.a, o.b)
		}
		return fmt.Sprintf("%s%d:%d", o.kind, o.a, o.b)
	case "Q", "D":
		pr := 0
		if o.priv {
			pr = 1
		}
		if o.kind == "D" && o.v < 0 {
			return fmt.Sprintf("D%d:%d:%d:-", o.a, o.b, pr)
		}
		return fmt.Sprintf("%s%d:%d:%d:%d", o.kind, o.a, o.b, pr, o.v)
	case "H":
		return fmt.Sprintf("H%d:%d:%d", o.a, o.b, o.v)
	}
	return fmt.Sprintf("%s%d:%d", o.kind, o.a, o.b)
}

// modelToken drops the surface-syntax marker (the model only knows the resolved form)
func (o c13Op) modelToken() string {
	t := o.token()
	if o.one {
		t = strings.TrimSuffix(t, ":1")
	}
	return t
}

func c13ParseOp(tok string) (o c13Op, ok bool) {
	if tok == "" {
		return o, false
	}
	o.kind = tok[:1]
	parts := strings.Split(tok[1:], ":")
	num := func(s string) int {
		n, err := strconv.Atoi(s)
		if err != nil {
			ok = false
		}
		return n
	}
	list := func(s string) []int {
		if s == "" {
			return nil
		}
		var out []int
		for _, w := range strings.Split(s, ".") {
			out = append(out, num(w))
		}
		return out
	}
	ok = true
	switch o.kind {
	case "O":
	case "P":
		if len(parts) != 3 {
			return o, false
		}
		o.a, o.us, o.ex = num(parts[0]), list(parts[1]), list(parts[2])
	case "I", "W", "M", "K":
		if len(parts) != 1 {
			return o, false
		}
		o.a = num(parts[0])
	case "G":
		if len(parts) != 3 {
			return o, false
		}
		o.a, o.b, o.exp = num(parts[0]), num(parts[1]), parts[2] == "1"
	case "Q", "D":
		if len(parts) != 4 {
			return o, false
		}
		o.a, o.b, o.priv = num(parts[0]), num(parts[1]), parts[2] == "1"
		if o.kind == "D" && parts[3] == "-" {
			o.v = -1
		} else {
			o.v = num(parts[3])
		}
	case "H":
		if len(parts) != 3 {
			return o, false
		}
		o.a, o.b, o.v = num(parts[0]), num(parts[1]), num(parts[2])
	case "U", "X", "E", "Z":
		if len(parts) == 3 && parts[2] == "1" {
			o.one = true
			parts = parts[:2]
		}
		fallthrough
	case "V", "S", "F", "N", "T":
		if len(parts) != 2 {
			return o, false
		}
		o.a, o.b = num(parts[0]), num(parts[1])
	default:
		return o, false
	}
	return o, ok
}

func c13PkgName(suffix string, p int) string { return fmt.Sprintf("vp%d%s", p, suffix) }

// lisp renders the operation as the Lisp text evaluated on the implementation.
func (o c13Op) lisp(suffix string) string {
	pn := func(p int) string { return c13PkgName(suffix, p) }
	switch o.kind {
	case "P":
		s := "(defpackage '" + pn(o.a) + " (:use cl cl-user"
		for _, u := range o.us {
			s += " " + pn(u)
		}
		s += ")"
		if len(o.ex) > 0 {
			s += " (:export"
			for _, n := range o.ex {
				s += " " + c13Names[n]
			}
			s += ")"
		}
		return s + ")"
	case "I":
		return "(in-package '" + pn(o.a) + ")"
	case "U":
		if o.one {
			return "(use-package '" + pn(o.b) + ")"
		}
		return "(use-package '" + pn(o.b) + " '" + pn(o.a) + ")"
	case "X":
		if o.one {
			return "(unuse-package '" + pn(o.b) + ")"
		}
		return "(unuse-package '" + pn(o.b) + " '" + pn(o.a) + ")"
	case "E":
		if o.one {
			return "(export '" + c13Names[o.b] + ")"
		}
		return "(export '" + c13Names[o.b] + " '" + pn(o.a) + ")"
	case "Z":
		if o.one {
			return "(unexport '" + c13Names[o.b] + ")"
		}
		return "(unexport '" + c13Names[o.b] + " '" + pn(o.a) + ")"
	case "V":
		return fmt.Sprintf("(defvar %s %d)", c13Names[o.a], o.b)
	case "W":
		return fmt.Sprintf("(defvar %s)", c13Names[o.a])
	case "S":
		return fmt.Sprintf("(setq %s %d)", c13Names[o.a], o.b)
	case "F":
		return fmt.Sprintf("(defun %s (a) (+ a %d))", c13Names[o.a], o.b)
	case "M":
		return fmt.Sprintf("(makunbound '%s)", c13Names[o.a])
	case "K":
		return fmt.Sprintf("(fmakunbound '%s)", c13Names[o.a])
	case "G":
		return fmt.Sprintf("#go:CurrentPackage.Define(%s => (+ a %d), NoExport=%v)", c13Names[o.a], o.b, !o.exp)
	case "Q", "D", "H":
		sym := pn(o.a) + ":" + c13Names[o.b]
		if o.priv || o.kind == "H" {
			sym = pn(o.a) + "::" + c13Names[o.b]
		}
		switch {
		case o.kind == "Q":
			return fmt.Sprintf("(setq %s %d)", sym, o.v)
		case o.kind == "H":
			return fmt.Sprintf("(defun %s (a) (+ a %d))", sym, o.v)
		case o.v < 0:
			return fmt.Sprintf("(defvar %s)", sym)
		}
		return fmt.Sprintf("(defvar %s %d)", sym, o.v)
	case "N":
		return fmt.Sprintf("(unintern '%s '%s)", c13Names[o.b], pn(o.a))
	case "T":
		return fmt.Sprintf("(intern %q '%s)", c13Names[o.b], pn(o.a))
	}
	return ";; observe"
}

type c13History struct {
	id     int
	family string // sweep:<prefix> | random | exhaustive
	ops    []c13Op
	cell   string // sweep: the single operation's token
}

func (h c13History) suffixKind() string {
	if h.family == "exhaustive" {
		return "y"
	}
	return "x"
}

func (h c13History) tokens(model bool) string {
	toks := make([]string, len(h.ops))
	for i, o := range h.ops {
		if model {
			toks[i] = o.modelToken()
		} else {
			toks[i] = o.token()
		}
	}
	return strings.Join(toks, " ")
}

func (h c13History) request() string {
	return fmt.Sprintf("pkg run %d %d %s", c13NPk, c13NNm, h.tokens(true))
}

func (h c13History) lispText() []string {
	var out []string
	for _, o := range h.ops {
		if o.kind != "O" {
			out = append(out, o.lisp(""))
		}
	}
	return out
}

func c13ParseHistory(toks string) (ops []c13Op, ok bool) {
	for _, t := range strings.Fields(toks) {
		o, k := c13ParseOp(t)
		if !k {
			return nil, false
		}
		ops = append(ops, o)
	}
	return ops, true
}

// ---------------------------------------------------------------------------------------------
// running a history on the implementation

var c13Scope *slip.Scope

func c13Eval(src string) lib.Outcome {
	if c13Scope == nil {
		c13Scope = slip.NewScope()
	}
	return lib.EvalString(c13Scope, src)
}

func c13EvalCompiled(src string) lib.Outcome {
	if c13Scope == nil {
		c13Scope = slip.NewScope()
	}
	return lib.EvalCompiled(c13Scope, src)
}

// Calls in compiled code (a form compiled with Code.Compile, a call in a lambda / defun body) are
// resolved by slip.CompileList when the code is compiled, not by ListToFunc / FindFunc: another
// implementation of "the name resolves to …" that every call lookup is repeated through.
// Compiling a call to a name the package has NO table entry for is a forward reference; a tree
// where that registers an (exported) placeholder in the function table (defect repaired by
// repo-patches/C13/0018) would have its later observations changed by the observation itself, so
// there such calls are compiled only when the table has an entry (c13ForwardRegisters, probed once
// per process in a throw-away package; reported by runC13 as a violation of its own).
var c13ForwardProbed, c13ForwardRegisters bool

const c13ForwardSig = "prefix=empty op=compile-forward-call lookup=own-func effect=fboundp-without-definition"

func c13ForwardLisp() []string {
	return []string{
		"(defpackage 'vpfwdprobe (:use cl cl-user))",
		"(in-package 'vpfwdprobe)",
		"(funcall (lambda () (qxfwd 0)))",
		"(fboundp 'qxfwd)",
	}
}

// c13ProbeForward: does compiling a call to an undefined function make the name fboundp?
func c13ProbeForward() (registers bool, observed string) {
	if c13ForwardProbed {
		return c13ForwardRegisters, ""
	}
	c13ForwardProbed = true
	l := c13ForwardLisp()
	c13Eval("(if (find-package 'vpfwdprobe) nil " + l[0] + ")")
	c13Eval(l[1])
	call := c13Item(c13Eval(l[2]), "undefined-function")
	fb := c13Item(c13Eval(l[3]), "")
	st := c13Item(c13Eval("(nth-value 1 (find-symbol \"qxfwd\"))"), "")
	c13Eval("(in-package 'cl-user)")
	c13ForwardRegisters = fb != "nil" || st != "nil"
	return c13ForwardRegisters, fmt.Sprintf("call => %s, then (fboundp 'qxfwd) => %s, (find-symbol \"qxfwd\") status => %s", call, fb, st)
}

// c13CompiledCall repeats a call lookup through compiled code: the form compiled with Code.Compile
// and the call in the body of a lambda compiled in the current package.
func c13CompiledCall(form string, hasEntry bool) []string {
	if reg, _ := c13ProbeForward(); reg && !hasEntry {
		return nil
	}
	return []string{
		c13Item(c13EvalCompiled(form), "undefined-function"),
		c13Item(c13Eval("(funcall (lambda () "+form+"))"), "undefined-function"),
	}
}

// c13Item canonicalises one lookup: a tag, "-" for unbound/undefined, "E:<class>" otherwise.
func c13Item(o lib.Outcome, unboundClass string) string {
	if o.Ok {
		switch tv := o.Value.(type) {
		case slip.Fixnum:
			return strconv.FormatInt(int64(tv), 10)
		case nil:
			return "nil"
		}
		if o.Value == slip.Unbound {
			return "-"
		}
		if o.Value == slip.True {
			return "t"
		}
		return "V:" + o.Text
	}
	if o.Class == unboundClass {
		return "-"
	}
	if o.GoFault {
		return "E:go-fault"
	}
	return "E:" + o.Class
}

func c13Same(items ...string) string {
	for _, it := range items[1:] {
		if it != items[0] {
			return strings.Join(items, "/")
		}
	}
	return items[0]
}

// c13Observe resolves every name from every defined package; undefined packages give "_".
func c13Observe(suffix string, defined []bool, cur int, skipName []bool) string {
	var items []string
	// symbols are case insensitive: outside the (large) bounded-exhaustive families every lookup is
	// also made with another spelling (Qxa, QXA, Vp1:Qxa …) and must agree with the lower-case one
	spell := !strings.HasPrefix(suffix, "y")
	mixed := func(s string) string { return strings.ToUpper(s[:1]) + s[1:] }
	for c := 0; c < c13NPk; c++ {
		if !defined[c] {
			for i := 0; i < c13NNm*c13NOwn+c13NPk*c13NNm*4; i++ {
				items = append(items, "_")
			}
			continue
		}
		c13Eval("(in-package '" + c13PkgName(suffix, c) + ")")
		for n := 0; n < c13NNm; n++ {
			name := c13Names[n]
			if skipName[n] {
				items = append(items, "_", "_", "_", "_")
				continue
			}
			// variable: plain evaluation, symbol-value, boundp
			v1 := c13Item(c13Eval(name), "unbound-variable")
			v2 := c13Item(c13Eval("(symbol-value '"+name+")"), "unbound-variable")
			if spell {
				v2 = c13Same(v2, c13Item(c13Eval(strings.ToUpper(name)), "unbound-variable"))
			}
			b := c13Item(c13Eval("(boundp '"+name+")"), "")
			vb := "-"
			if b == "t" {
				vb = v1
			} else if b != "nil" {
				vb = "boundp=" + b
			}
			if b == "t" && v1 == "-" {
				vb = "boundp=t"
			}
			items = append(items, c13Same(v1, v2, vb))
			// function: fboundp, funcall, direct call
			fb := c13Item(c13Eval("(fboundp '"+name+")"), "")
			switch fb {
			case "t":
			case "nil":
				fb = "f"
			}
			items = append(items, fb)
			f1 := c13Item(c13Eval("("+name+" 0)"), "undefined-function")
			f2 := c13Item(c13Eval("(funcall '"+name+" 0)"), "undefined-function")
			if spell {
				f2 = c13Same(f2, c13Item(c13Eval("("+mixed(name)+" 0)"), "undefined-function"))
			}
			items = append(items, c13Same(append([]string{f1, f2}, c13CompiledCall("("+name+" 0)", f1 != "-" || fb == "t")...)...))
			// status of the name in the package: (find-symbol "n") => nil / :internal / :external / :inherited
			st := c13Eval("(nth-value 1 (find-symbol \"" + name + "\"))")
			item := c13Item(st, "")
			if st.Ok {
				switch st.Text {
				case "nil":
					item = "0"
				case ":internal":
					item = "1"
				case ":external":
					item = "2"
				case ":inherited":
					item = "3"
				}
			}
			items = append(items, item)
		}
		for q := 0; q < c13NPk; q++ {
			for n := 0; n < c13NNm; n++ {
				if !defined[q] || skipName[n] {
					items = append(items, "_", "_", "_", "_")
					continue
				}
				qn := c13PkgName(suffix, q)
				name := c13Names[n]
				qv := c13Item(c13Eval(qn+":"+name), "unbound-variable")
				qf := c13Item(c13Eval("("+qn+":"+name+" 0)"), "undefined-function")
				if spell {
					qv = c13Same(qv, c13Item(c13Eval(mixed(qn)+":"+strings.ToUpper(name)), "unbound-variable"))
					qf = c13Same(qf, c13Item(c13Eval("("+qn+":"+mixed(name)+" 0)"), "undefined-function"))
				}
				qqf := c13Item(c13Eval("("+qn+"::"+name+" 0)"), "undefined-function")
				// q's table has an entry for the name iff q::n reaches something
				hasEntry := qqf != "-"
				qf = c13Same(append([]string{qf}, c13CompiledCall("("+qn+":"+name+" 0)", hasEntry)...)...)
				qqf = c13Same(append([]string{qqf}, c13CompiledCall("("+qn+"::"+name+" 0)", hasEntry)...)...)
				items = append(items,
					qv,
					c13Item(c13Eval(qn+"::"+name), "unbound-variable"),
					qf,
					qqf)
			}
		}
	}
	if cur >= 0 && defined[cur] {
		c13Eval("(in-package '" + c13PkgName(suffix, cur) + ")")
	} else {
		c13Eval("(in-package 'cl-user)")
	}
	return strings.Join(items, ",")
}

// c13RunImpl executes the history on the interpreter; returns the observation blocks joined with
// "|" (same layout as the model's reply) or "operr …" when an operation itself failed.
func c13RunImpl(ops []c13Op, suffix string) (reply string) {
	// suffix "y…": sparse mode (bounded-exhaustive family) — names no operation of the history
	// mentions are not looked up (all packages are fresh, they cannot be bound)
	skipName := make([]bool, c13NNm)
	if strings.HasPrefix(suffix, "y") {
		for n := range skipName {
			skipName[n] = true
		}
		for _, o := range ops {
			switch o.kind {
			case "E", "Z", "Q", "D", "H", "N", "T":
				skipName[o.b] = false
			case "V", "W", "S", "F", "M", "K", "G":
				skipName[o.a] = false
			case "P":
				for _, n := range o.ex {
					skipName[n] = false
				}
			}
		}
	}
	defined := make([]bool, c13NPk)
	cur := -1
	var blocks []string
	defer func() {
		c13Eval("(in-package 'cl-user)")
		for p := 0; p < c13NPk; p++ {
			if pkg := slip.FindPackage(c13PkgName(suffix, p)); pkg != nil {
				_ = lib.Protect(func() slip.Object {
					// clean-up, not under test: detach the package from the use graph by hand (an
					// Unuse per used package would rebuild its tables twice) and drop it
					for _, u := range pkg.Uses {
						for i, x := range u.Users {
							if x == pkg {
								u.Users = append(u.Users[:i:i], u.Users[i+1:]...)
								break
							}
						}
					}
					pkg.Uses = nil
					slip.RemovePackage(pkg)
					return nil
				})
			}
		}
	}()
	for i, o := range ops {
		if o.kind == "O" {
			blocks = append(blocks, c13Observe(suffix, defined, cur, skipName))
			continue
		}
		var out lib.Outcome
		if o.kind == "G" {
			out = c13GoDefine(o)
		} else {
			out = c13Eval(o.lisp(suffix))
		}
		if !out.Ok {
			cl := out.Class
			if out.GoFault {
				cl = "go-fault"
			}
			return fmt.Sprintf("operr %d %s %s", i, o.token(), cl)
		}
		switch o.kind {
		case "P":
			defined[o.a] = true
		case "I":
			cur = o.a
		}
	}
	return "ok " + strings.Join(blocks, "|")
}

// c13GoFunc is a function defined through the Go extension interface (Package.Define).
type c13GoFunc struct {
	slip.Function
	tag int64
}

// Call returns the first argument plus the tag (like the defun bodies of the harness).
func (f *c13GoFunc) Call(s *slip.Scope, args slip.List, depth int) slip.Object {
	n := slip.Fixnum(0)
	if 0 < len(args) {
		if x, ok := args[0].(slip.Fixnum); ok {
			n = x
		}
	}
	return n + slip.Fixnum(f.tag)
}

func c13GoDefine(o c13Op) lib.Outcome {
	name, tag := c13Names[o.a], int64(o.b)
	return lib.Protect(func() slip.Object {
		slip.CurrentPackage.Define(
			func(args slip.List) slip.Object {
				f := c13GoFunc{Function: slip.Function{Name: name, Args: args}, tag: tag}
				f.Self = &f
				return &f
			},
			&slip.FuncDoc{Name: name, Args: []*slip.DocArg{{Name: "a", Type: "fixnum"}}, Return: "fixnum", NoExport: !o.exp})
		return nil
	})
}

// c13Worker: `vh C13-worker` reads "id suffix token…" lines, writes "id reply" lines.
func c13Worker(c *lib.Ctx) {
	sc := bufio.NewScanner(os.Stdin)
	sc.Buffer(make([]byte, 1<<20), 1<<26)
	w := bufio.NewWriter(os.Stdout)
	// defun of an existing name writes a warning to *error-output*
	c13Eval(`(setq *error-output* (open "/dev/null" :direction :output :if-exists :append))`)
	for sc.Scan() {
		id, rest, _ := strings.Cut(sc.Text(), " ")
		suffix, toks, _ := strings.Cut(rest, " ")
		ops, ok := c13ParseHistory(toks)
		if !ok {
			fmt.Fprintf(w, "%s bad-history\n", id)
			continue
		}
		fmt.Fprintf(w, "%s %s\n", id, c13RunImpl(ops, suffix))
	}
	_ = w.Flush()
	os.Exit(0)
}

// c13ImplAll runs all histories on worker processes (fresh interpreter per shard).
func c13ImplAll(hs []c13History) []string {
	res := make([]string, len(hs))
	nw := runtime.NumCPU() - 4
	if nw > 12 {
		nw = 12
	}
	if nw < 1 {
		nw = 1
	}
	if len(hs) < 4*nw {
		nw = 1
	}
	var wg sync.WaitGroup
	var mu sync.Mutex
	failed := ""
	for w := 0; w < nw; w++ {
		wg.Add(1)
		go func(w int) {
			defer wg.Done()
			var in bytes.Buffer
			for i := w; i < len(hs); i += nw {
				fmt.Fprintf(&in, "%d %s%d %s\n", i, hs[i].suffixKind(), hs[i].id, hs[i].tokens(false))
			}
			cmd := exec.Command(os.Args[0], "C13-worker")
			cmd.Stdin = &in
			var out bytes.Buffer
			cmd.Stdout = &out
			cmd.Stderr = os.Stderr
			if err := cmd.Run(); err != nil {
				mu.Lock()
				failed = fmt.Sprintf("worker %d: %v", w, err)
				mu.Unlock()
			}
			sc := bufio.NewScanner(&out)
			sc.Buffer(make([]byte, 1<<20), 1<<28)
			for sc.Scan() {
				id, reply, _ := strings.Cut(sc.Text(), " ")
				i, err := strconv.Atoi(id)
				if err == nil && i >= 0 && i < len(res) {
					res[i] = reply
				}
			}
		}(w)
	}
	wg.Wait()
	for i := range res {
		if res[i] == "" && failed == "" {
			failed = fmt.Sprintf("no reply for history %d", i)
		}
	}
	if failed != "" {
		// a worker died (Go fatal error in the interpreter?): find the history by running one per process
		fmt.Fprintln(os.Stderr, "c13: "+failed+" — re-running the unanswered histories one per process")
		for i := range res {
			if res[i] != "" {
				continue
			}
			cmd := exec.Command(os.Args[0], "C13-worker")
			cmd.Stdin = strings.NewReader(fmt.Sprintf("%d %s%d %s\n", i, hs[i].suffixKind(), hs[i].id, hs[i].tokens(false)))
			out, err := cmd.Output()
			_, reply, _ := strings.Cut(strings.TrimSpace(string(out)), " ")
			if err != nil || reply == "" {
				reply = "crash"
			}
			res[i] = reply
		}
	}
	return res
}

// ---------------------------------------------------------------------------------------------
// comparison and signatures

var c13ItemKinds = []string{"var", "fboundp", "call", "status"}

// c13NOwn: lookups per (current package, name) before the qualified block
const c13NOwn = 4

var c13QualKinds = []string{"qvar", "qqvar", "qfun", "qqfun"}

type c13Diff struct {
	block    int // index of the observation block
	opIndex  int // index in ops of the last operation before that block
	c, q, n  int
	kind     string // var fboundp call qvar qqvar qfun qqfun
	expected string
	observed string
	mblock   []string // the model block (for classification)
}

// c13Locate maps an item index to (current package, kind, q, name)
func c13Locate(i int) (c int, kind string, q, n int) {
	per := c13NNm*c13NOwn + c13NPk*c13NNm*4
	c = i / per
	r := i % per
	if r < c13NNm*c13NOwn {
		return c, c13ItemKinds[r%c13NOwn], -1, r / c13NOwn
	}
	r -= c13NNm * c13NOwn
	q = r / (c13NNm * 4)
	r %= c13NNm * 4
	return c, c13QualKinds[r%4], q, r / 4
}

func c13Index(c int, kind string, q, n int) int {
	per := c13NNm*c13NOwn + c13NPk*c13NNm*4
	for k, kn := range c13ItemKinds {
		if kn == kind {
			return c*per + n*c13NOwn + k
		}
	}
	for k, kn := range c13QualKinds {
		if kn == kind {
			return c*per + c13NNm*c13NOwn + q*c13NNm*4 + n*4 + k
		}
	}
	return -1
}

// c13TieBreakDivergences counts histories whose comparison stopped at an allowed, but different,
// choice among conflicting exporters (evidence only).
var c13TieBreakDivergences int

// c13Compare returns the first disagreement (block order, then item order), or nil.
func c13Compare(h c13History, impl, model string) *c13Diff {
	if !strings.HasPrefix(model, "ok") {
		fmt.Fprintf(os.Stderr, "c13: model reply %q for %s\n", model, h.request())
		os.Exit(2)
	}
	if !strings.HasPrefix(impl, "ok") {
		// an operation failed on the implementation (the model has no failing operations)
		w := strings.Fields(impl)
		d := &c13Diff{block: -1, opIndex: -1, kind: "op", expected: "every operation succeeds", observed: impl}
		if len(w) >= 4 && w[0] == "operr" {
			d.opIndex, _ = strconv.Atoi(w[1])
			d.observed = "error " + w[3]
		}
		return d
	}
	mb := strings.Split(strings.TrimPrefix(strings.TrimPrefix(model, "ok"), " "), "|")
	ib := strings.Split(strings.TrimPrefix(strings.TrimPrefix(impl, "ok"), " "), "|")
	if len(mb) != len(ib) {
		return &c13Diff{block: -1, opIndex: -1, kind: "shape", expected: fmt.Sprint(len(mb), " blocks"), observed: fmt.Sprint(len(ib), " blocks")}
	}
	// op index before each block
	var before []int
	last := -1
	for i, o := range h.ops {
		if o.kind == "O" {
			before = append(before, last)
		} else {
			last = i
		}
	}
	for b := range mb {
		if mb[b] == ib[b] {
			continue
		}
		mi, ii := strings.Split(mb[b], ","), strings.Split(ib[b], ",")
		if len(mi) != len(ii) {
			return &c13Diff{block: b, opIndex: before[b], kind: "shape", expected: fmt.Sprint(len(mi), " items"), observed: fmt.Sprint(len(ii), " items")}
		}
		for i := range mi {
			if mi[i] == ii[i] || mi[i] == "?" || ii[i] == "_" {
				continue
			}
			if strings.Contains(mi[i], "~") {
				// name conflict: no own definition and several used packages export the name. The
				// property allows any of them (lookup_sound); the first alternative is the one the
				// repaired implementation picks today. Another allowed exporter is no violation, but
				// from here on the implementation and the model may legitimately differ (assignments
				// through the name reach another owner): the rest of this history is not compared.
				alts := strings.Split(mi[i], "~")
				if ii[i] == alts[0] {
					continue
				}
				allowed := false
				for _, a := range alts[1:] {
					if a == ii[i] {
						allowed = true
					}
				}
				if allowed {
					c13TieBreakDivergences++
					return nil
				}
			}
			c, kind, q, n := c13Locate(i)
			return &c13Diff{block: b, opIndex: before[b], c: c, q: q, n: n, kind: kind, expected: mi[i], observed: ii[i], mblock: mi}
		}
	}
	return nil
}

// c13Signature: (operation kind that diverges, lookup kind, effect).
//
//	lookup: own-var own-func used-var used-func qualified-var qualified-func (+ "-private" for q::n)
//	effect: lost | stale | private-visible | foreign-visible | wrong-owner | inconsistent-forms |
//	        error-<class> | op-error-<class>
func c13Signature(h c13History, d *c13Diff) string {
	opk := "none"
	if d.opIndex >= 0 && d.opIndex < len(h.ops) {
		opk = c13OpName(h.ops[d.opIndex])
	}
	pre := ""
	if strings.HasPrefix(h.family, "sweep:") {
		pre = "prefix=" + strings.TrimPrefix(h.family, "sweep:") + " "
	}
	switch d.kind {
	case "op":
		return pre + "op=" + opk + " lookup=none effect=op-" + strings.ReplaceAll(d.observed, " ", "-")
	case "shape":
		return pre + "op=" + opk + " lookup=none effect=shape"
	case "status":
		return pre + "op=" + opk + " lookup=find-symbol effect=status-" + c13StatusName(d.expected) + "-seen-" + c13StatusName(d.observed)
	}
	if strings.Contains(d.expected, "~") {
		// a conflict cell that shows none of the allowed exporters: classify by the first alternative
		dd := *d
		dd.expected = strings.SplitN(d.expected, "~", 2)[0]
		d = &dd
	}
	vf := "var"
	tab := "qqvar" // which model item tells the current own definition of a package
	if d.kind == "fboundp" || d.kind == "call" || d.kind == "qfun" || d.kind == "qqfun" {
		vf, tab = "func", "qqfun"
	}
	// owner of a tag according to the model block: the package whose own definition carries it
	ownerOf := func(tag string) (owner int, exported bool) {
		owner = -1
		for q := 0; q < c13NPk; q++ {
			if d.mblock[c13Index(0, tab, q, d.n)] == tag {
				owner = q
				// exported: visible with a single colon from another package
				from := (q + 1) % c13NPk
				single := "qvar"
				if vf == "func" {
					single = "qfun"
				}
				exported = d.mblock[c13Index(from, single, q, d.n)] == tag
			}
		}
		return
	}
	isTag := func(s string) bool { _, err := strconv.Atoi(s); return err == nil }
	lookup := "used-" + vf
	switch d.kind {
	case "qvar", "qfun":
		lookup = "qualified-" + vf
	case "qqvar", "qqfun":
		lookup = "qualified-" + vf + "-private"
	default:
		if isTag(d.expected) {
			if o, _ := ownerOf(d.expected); o == d.c {
				lookup = "own-" + vf
			}
		}
	}
	effect := "differs"
	switch {
	case d.kind == "fboundp" && d.expected == "t" && d.observed == "f":
		effect = "lost"
	case d.kind == "fboundp" && d.expected == "f" && d.observed == "t":
		effect = "stale-entry"
	case strings.Contains(d.observed, "/"):
		effect = "inconsistent-forms"
	case strings.HasPrefix(d.observed, "E:"):
		effect = "error-" + strings.TrimPrefix(d.observed, "E:")
	case isTag(d.expected) && d.observed == "-":
		effect = "lost"
	case isTag(d.observed):
		o, exp := ownerOf(d.observed)
		switch {
		case o < 0:
			effect = "stale"
		case !exp && !(d.kind == "qqvar" || d.kind == "qqfun"):
			effect = "private-visible"
		case d.expected == "-":
			effect = "foreign-visible"
		default:
			effect = "wrong-owner"
		}
	}
	return pre + "op=" + opk + " lookup=" + lookup + " effect=" + effect
}

func c13StatusName(s string) string {
	switch s {
	case "0":
		return "none"
	case "1":
		return "internal"
	case "2":
		return "external"
	case "3":
		return "inherited"
	}
	return strings.TrimPrefix(s, "E:")
}

func c13OpName(o c13Op) string {
	switch o.kind {
	case "Q":
		return "setq-qualified"
	case "D":
		return "defvar-qualified"
	case "H":
		return "defun-qualified"
	case "N":
		return "unintern"
	case "T":
		return "intern"
	case "P":
		return "defpackage"
	case "I":
		return "in-package"
	case "U":
		return "use-package"
	case "X":
		return "unuse-package"
	case "E":
		return "export"
	case "Z":
		return "unexport"
	case "V", "W":
		return "defvar"
	case "S":
		return "setq"
	case "F":
		return "defun"
	case "M":
		return "makunbound"
	case "K":
		return "fmakunbound"
	case "G":
		return "go-define"
	}
	return o.kind
}

func (d *c13Diff) describe(h c13History) (observed, expected string) {
	if d.kind == "op" || d.kind == "shape" {
		return d.observed, d.expected
	}
	form := ""
	name := c13Names[d.n]
	switch d.kind {
	case "var":
		form = name + " / (symbol-value '" + name + ") / (boundp '" + name + ")"
	case "fboundp":
		form = "(fboundp '" + name + ")"
	case "call":
		form = "(" + name + " 0) / (funcall '" + name + " 0)"
	case "status":
		form = "(find-symbol \"" + name + "\") status (0 none, 1 :internal, 2 :external, 3 :inherited)"
	case "qvar":
		form = c13PkgName("", d.q) + ":" + name
	case "qqvar":
		form = c13PkgName("", d.q) + "::" + name
	case "qfun":
		form = "(" + c13PkgName("", d.q) + ":" + name + " 0)"
	case "qqfun":
		form = "(" + c13PkgName("", d.q) + "::" + name + " 0)"
	}
	where := fmt.Sprintf("after operation #%d, in package %s: %s", d.opIndex, c13PkgName("", d.c), form)
	return where + " => " + d.observed, where + " => " + d.expected + "   (- = unbound/undefined)"
}

// ---------------------------------------------------------------------------------------------
// generators

// c13Gen tracks what the generator must know about a history under construction: defined
// packages, current package, the use graph among the user packages and the tag counter. It is
// used for generation decisions only, never for a verdict.
type c13Gen struct {
	defined         [c13NPk]bool
	cur             int
	uses            [c13NPk][c13NPk]bool
	tag             int
	ops             []c13Op
	avoidTransitive bool
}

func (g *c13Gen) nUses(p int) int {
	n := 0
	for q := 0; q < c13NPk; q++ {
		if g.uses[p][q] {
			n++
		}
	}
	return n
}

// transitiveRisk: would the operation copy a whole table of a package that itself inherits from
// a user package? (known finding: Use / the Unuse rebuild copy inherited entries)
func (g *c13Gen) transitiveRisk(o c13Op) bool {
	switch o.kind {
	case "U":
		return o.a != o.b && g.nUses(o.b) > 0
	case "X":
		for q := 0; q < c13NPk; q++ {
			if q != o.b && g.uses[o.a][q] && g.nUses(q) > 0 {
				return true
			}
		}
	case "P":
		for _, u := range o.us {
			if g.nUses(u) > 0 {
				return true
			}
		}
	}
	return false
}

func (g *c13Gen) apply(o c13Op) {
	switch o.kind {
	case "P":
		g.defined[o.a] = true
		for _, u := range o.us {
			if u != o.a {
				g.uses[o.a][u] = true
			}
		}
	case "I":
		g.cur = o.a
	case "U":
		if o.a != o.b {
			g.uses[o.a][o.b] = true
		}
	case "X":
		g.uses[o.a][o.b] = false
	}
	g.ops = append(g.ops, o)
}

// ok: the operation is well-formed in the current generator state (packages exist, …)
func (g *c13Gen) ok(o c13Op) bool {
	switch o.kind {
	case "P":
		if g.defined[o.a] {
			return false
		}
		for _, u := range o.us {
			if !g.defined[u] {
				return false
			}
		}
	case "I":
		return g.defined[o.a]
	case "U", "X":
		if !g.defined[o.a] || !g.defined[o.b] {
			return false
		}
		if o.one && o.a != g.cur {
			return false
		}
	case "E", "Z":
		if !g.defined[o.a] {
			return false
		}
		if o.one && o.a != g.cur {
			return false
		}
	case "Q", "D", "H", "N", "T":
		if !g.defined[o.a] || g.cur < 0 {
			return false
		}
	case "V", "W", "S", "F", "M", "K", "G":
		if g.cur < 0 {
			return false
		}
	}
	if g.avoidTransitive && g.transitiveRisk(o) {
		return false
	}
	return true
}

func (g *c13Gen) nextTag() int { g.tag++; return g.tag }

// c13Alphabet lists every operation instance (for the sweep) in the given generator state.
func c13Alphabet(g *c13Gen) []c13Op {
	var out []c13Op
	for p := 0; p < c13NPk; p++ {
		out = append(out, c13Op{kind: "I", a: p})
		for q := 0; q < c13NPk; q++ {
			out = append(out, c13Op{kind: "U", a: p, b: q}, c13Op{kind: "X", a: p, b: q})
			if p == g.cur {
				out = append(out, c13Op{kind: "U", a: p, b: q, one: true}, c13Op{kind: "X", a: p, b: q, one: true})
			}
		}
		for n := 0; n < c13NNm; n++ {
			out = append(out,
				c13Op{kind: "Q", a: p, b: n, v: 950 + n, priv: true}, c13Op{kind: "Q", a: p, b: n, v: 952 + n},
				c13Op{kind: "D", a: p, b: n, v: 954 + n, priv: true}, c13Op{kind: "D", a: p, b: n, v: 956 + n},
				c13Op{kind: "D", a: p, b: n, v: -1, priv: true},
				c13Op{kind: "H", a: p, b: n, v: 958 + n}, c13Op{kind: "N", a: p, b: n}, c13Op{kind: "T", a: p, b: n})
			out = append(out, c13Op{kind: "E", a: p, b: n}, c13Op{kind: "Z", a: p, b: n})
			if p == g.cur {
				out = append(out, c13Op{kind: "E", a: p, b: n, one: true}, c13Op{kind: "Z", a: p, b: n, one: true})
			}
		}
		if !g.defined[p] {
			out = append(out, c13Op{kind: "P", a: p})
			for q := 0; q < c13NPk; q++ {
				if g.defined[q] {
					out = append(out, c13Op{kind: "P", a: p, us: []int{q}}, c13Op{kind: "P", a: p, us: []int{q}, ex: []int{0}})
				}
			}
			out = append(out, c13Op{kind: "P", a: p, ex: []int{0, 1}})
		}
	}
	for n := 0; n < c13NNm; n++ {
		out = append(out, c13Op{kind: "V", a: n, b: 900 + n}, c13Op{kind: "W", a: n}, c13Op{kind: "S", a: n, b: 910 + n},
			c13Op{kind: "F", a: n, b: 920 + n}, c13Op{kind: "M", a: n}, c13Op{kind: "K", a: n},
			c13Op{kind: "G", a: n, b: 930 + n, exp: true}, c13Op{kind: "G", a: n, b: 940 + n, exp: false})
	}
	return out
}

type c13Prefix struct {
	name string
	toks string
}

// the fixed prefixes of the single-cause sweep (each establishes one kind of situation)
var c13Prefixes = []c13Prefix{
	{"empty", "P0:: P1:: P2:: I0"},
	{"own", "P0:: P1:: P2:: I0 V0:1 F0:2 V1:3 F1:4"},
	{"used", "P0:: P1:: P2:: I1 V0:1 F0:2 V1:3 F1:4 E1:0 U0:1 I0"},
	{"used-owner-current", "P0:: P1:: P2:: I1 V0:1 F0:2 V1:3 F1:4 E1:0 U0:1"},
	{"exported-later", "P0:: P1:: P2:: U0:1 I1 V0:1 F0:2 E1:0 I0"},
	{"shadow", "P0:: P1:: P2:: I1 V0:1 F0:2 E1:0 I0 V0:3 F0:4 U0:1"},
	{"shadow-owner-current", "P0:: P1:: P2:: I1 V0:1 F0:2 E1:0 I0 V0:3 F0:4 U0:1 I1"},
	{"shadow-exported-later", "P0:: P1:: P2:: U0:1 I0 V0:3 F0:4 I1 V0:1 F0:2 E1:0 I0"},
	{"export-first", "P0:: P1::0.1 P2:: U0:1 I1"},
	{"export-first-used", "P0:: P1::0.1 P2:: U0:1 I1 V0:1 F1:2 I0"},
	{"two-users", "P0:: P1:: P2:: I1 V0:1 F0:2 E1:0 U0:1 U2:1 I1"},
	{"chain", "P0:: P1:: P2:: I2 V0:1 F0:2 E2:0 U0:1 U1:2 I1 V1:3 F1:4 E1:1 I0"},
	{"chain-used-first", "P0:: P1:: P2:: I2 V0:1 F0:2 E2:0 U1:2 I1 V1:3 F1:4 E1:1 I0"},
	{"conflict", "P0:: P1:: P2:: I1 V0:1 F0:2 E1:0 I2 V0:3 F0:4 E2:0 U0:1 U0:2 I0"},
	{"conflict-owner-current", "P0:: P1:: P2:: I1 V0:1 F0:2 E1:0 I2 V0:3 F0:4 E2:0 U0:1 U0:2 I1"},
	{"unbound-exported", "P0:: P1:: P2:: I1 W0 E1:0 U0:1 U2:1 I0"},
	{"defpackage-late", "P0:: P1:: I1 V0:1 F0:2 E1:0 V1:3 F1:4 I0 V1:5 F1:6 E0:1"},
}

func c13Sweep() []c13History {
	var hs []c13History
	for _, pf := range c13Prefixes {
		ops, ok := c13ParseHistory(pf.toks)
		if !ok {
			panic("bad prefix " + pf.name)
		}
		g := &c13Gen{cur: -1}
		for _, o := range ops {
			if !g.ok(o) {
				panic("prefix " + pf.name + ": operation not applicable: " + o.token())
			}
			g.apply(o)
		}
		for _, o := range c13Alphabet(g) {
			if !g.ok(o) {
				continue
			}
			h := c13History{family: "sweep:" + pf.name, cell: o.token()}
			h.ops = append(append([]c13Op{}, ops...), c13Op{kind: "O"}, o, c13Op{kind: "O"})
			// a second single operation makes delayed effects visible: re-observe after a no-op-like in-package
			hs = append(hs, h)
		}
	}
	return hs
}

func c13RandomOp(r *lib.Rng, g *c13Gen) c13Op {
	pk := func() int { return r.Intn(c13NPk) }
	nm := func() int { return r.Intn(c13NNm) }
	for {
		var o c13Op
		switch x := r.Intn(100); {
		case x < 10:
			o = c13Op{kind: "I", a: pk()}
		case x < 20:
			// operations that name their package: qualified setq / defvar / defun, unintern, intern
			switch y := r.Intn(10); {
			case y < 3:
				o = c13Op{kind: "Q", a: pk(), b: nm(), priv: r.Chance(70)}
			case y < 5:
				o = c13Op{kind: "D", a: pk(), b: nm(), priv: r.Chance(70)}
				if r.Chance(15) {
					o.v = -1
				}
			case y < 7:
				o = c13Op{kind: "H", a: pk(), b: nm()}
			case y < 9:
				o = c13Op{kind: "N", a: pk(), b: nm()}
			default:
				o = c13Op{kind: "T", a: pk(), b: nm()}
			}
		case x < 31:
			o = c13Op{kind: "U", a: pk(), b: pk()}
		case x < 38:
			o = c13Op{kind: "X", a: pk(), b: pk()}
		case x < 49:
			o = c13Op{kind: "E", a: pk(), b: nm()}
		case x < 56:
			o = c13Op{kind: "Z", a: pk(), b: nm()}
		case x < 63:
			o = c13Op{kind: "V", a: nm()}
		case x < 66:
			o = c13Op{kind: "W", a: nm()}
		case x < 73:
			o = c13Op{kind: "S", a: nm()}
		case x < 81:
			o = c13Op{kind: "F", a: nm()}
		case x < 85:
			o = c13Op{kind: "G", a: nm(), exp: r.Chance(60)}
		case x < 90:
			o = c13Op{kind: "M", a: nm()}
		case x < 94:
			o = c13Op{kind: "K", a: nm()}
		default:
			o = c13Op{kind: "P", a: pk()}
			for q := 0; q < c13NPk; q++ {
				if g.defined[q] && r.Chance(40) {
					o.us = append(o.us, q)
				}
			}
			for n := 0; n < c13NNm; n++ {
				if r.Chance(40) {
					o.ex = append(o.ex, n)
				}
			}
		}
		switch o.kind {
		case "U", "X", "E", "Z":
			if r.Chance(50) {
				// prefer acting on the current package, half of those in the one-argument form
				o.a = g.cur
				o.one = r.Bool()
			}
		}
		if o.a < 0 || !g.ok(o) {
			continue
		}
		switch o.kind {
		case "V", "S", "F", "G":
			o.b = g.nextTag()
		case "Q", "H":
			o.v = g.nextTag()
		case "D":
			if o.v >= 0 {
				o.v = g.nextTag()
			}
		}
		return o
	}
}

func c13Random(r *lib.Rng, n int, avoid bool) []c13History {
	var hs []c13History
	for i := 0; i < n; i++ {
		g := &c13Gen{cur: -1, avoidTransitive: avoid}
		// two packages exist from the start, the third is usually created later by a defpackage with options
		g.apply(c13Op{kind: "P", a: 0})
		g.apply(c13Op{kind: "P", a: 1})
		if r.Chance(30) {
			g.apply(c13Op{kind: "P", a: 2})
		}
		g.apply(c13Op{kind: "I", a: r.Intn(2)})
		length := 6 + r.Intn(30)
		if r.Chance(10) {
			length = 40 + r.Intn(40)
		}
		h := c13History{family: "random"}
		for k := 0; k < length; k++ {
			o := c13RandomOp(r, g)
			g.apply(o)
			g.apply(c13Op{kind: "O"})
		}
		h.ops = g.ops
		hs = append(hs, h)
	}
	return hs
}

// c13Exhaustive enumerates every history up to maxLen over a reduced alphabet: two packages
// (p0 may use p1), one name, operations on the current package.
func c13Exhaustive(maxLen int, three bool, avoid bool, qualified ...bool) []c13History {
	var hs []c13History
	type sym struct {
		kind string
		a, b int
	}
	alpha := []sym{{"I", 0, 0}, {"I", 1, 0}, {"U", 0, 1}, {"X", 0, 1}, {"Ec", 0, 0}, {"Zc", 0, 0}, {"V", 0, 0}, {"S", 0, 0}, {"F", 0, 0}, {"M", 0, 0}, {"K", 0, 0}}
	prefix := "P0:: P1:: I0"
	if three {
		// three packages, graph operations and one variable/function pair
		alpha = []sym{{"I", 0, 0}, {"I", 1, 0}, {"I", 2, 0}, {"U", 0, 1}, {"U", 0, 2}, {"U", 1, 2}, {"X", 0, 1}, {"X", 0, 2}, {"Ec", 0, 0}, {"Zc", 0, 0}, {"S", 0, 0}, {"F", 0, 0}, {"M", 0, 0}, {"K", 0, 0}}
		prefix = "P0:: P1:: P2:: I2"
	}
	if len(qualified) > 0 && qualified[0] {
		// two packages, one name: the operations that name their package act on the OTHER package
		// (qualified setq / defvar / defun, unintern, intern), next to the unqualified ones
		alpha = []sym{{"I", 0, 0}, {"I", 1, 0}, {"U", 0, 1}, {"X", 0, 1}, {"Ec", 0, 0}, {"Zc", 0, 0}, {"S", 0, 0}, {"F", 0, 0}, {"M", 0, 0},
			{"Qo", 0, 0}, {"Qs", 0, 0}, {"Do", 0, 0}, {"Ho", 0, 0}, {"No", 0, 0}, {"To", 0, 0}}
		prefix = "P0:: P1:: I0"
	}
	pre, _ := c13ParseHistory(prefix)
	var rec func(g c13Gen, depth int, lastI bool)
	rec = func(g c13Gen, depth int, lastI bool) {
		if depth > 0 {
			// observe after the last two operations: every shorter history is enumerated on its own
			h := c13History{family: "exhaustive"}
			nops := len(g.ops)
			for i, o := range g.ops {
				h.ops = append(h.ops, o)
				if i == nops-1 || (i == nops-2 && i >= len(pre)-1) {
					h.ops = append(h.ops, c13Op{kind: "O"})
				}
			}
			hs = append(hs, h)
		}
		if depth == maxLen {
			return
		}
		for _, s := range alpha {
			if s.kind == "I" && (lastI || s.a == g.cur) {
				continue // consecutive in-package operations add nothing
			}
			var o c13Op
			switch s.kind {
			case "Ec":
				o = c13Op{kind: "E", a: g.cur, b: 0, one: true}
			case "Zc":
				o = c13Op{kind: "Z", a: g.cur, b: 0, one: true}
			case "V", "S", "F":
				o = c13Op{kind: s.kind, a: 0, b: g.tag + 1}
			case "M", "K":
				o = c13Op{kind: s.kind, a: 0}
			case "Qo":
				o = c13Op{kind: "Q", a: 1 - g.cur, b: 0, v: g.tag + 1, priv: true}
			case "Qs":
				o = c13Op{kind: "Q", a: 1 - g.cur, b: 0, v: g.tag + 1}
			case "Do":
				o = c13Op{kind: "D", a: 1 - g.cur, b: 0, v: g.tag + 1, priv: true}
			case "Ho":
				o = c13Op{kind: "H", a: 1 - g.cur, b: 0, v: g.tag + 1}
			case "No":
				o = c13Op{kind: "N", a: 1 - g.cur, b: 0}
			case "To":
				o = c13Op{kind: "T", a: 1 - g.cur, b: 0}
			default:
				o = c13Op{kind: s.kind, a: s.a, b: s.b}
			}
			if !g.ok(o) {
				continue
			}
			g2 := g
			g2.ops = append([]c13Op{}, g.ops...)
			if o.kind == "V" || o.kind == "S" || o.kind == "F" || o.kind == "Q" || o.kind == "D" || o.kind == "H" {
				g2.tag++
			}
			g2.apply(o)
			rec(g2, depth+1, s.kind == "I")
		}
	}
	g := c13Gen{cur: -1}
	for _, o := range pre {
		g.apply(o)
	}
	g.avoidTransitive = avoid
	rec(g, 0, true)
	return hs
}

// ---------------------------------------------------------------------------------------------
// shrinking, replay, main

func c13Check(h c13History, model func([]string) []string) (*c13Diff, string, string) {
	m := model([]string{h.request()})[0]
	impl := c13ImplAll([]c13History{h})[0]
	return c13Compare(h, impl, m), impl, m
}

// c13Shrink removes operations while the first disagreement keeps the same signature.
func c13Shrink(c *lib.Ctx, h c13History, sig string) c13History {
	try := func(ops []c13Op) bool {
		h2 := h
		h2.ops = ops
		// the candidate must stay well-formed
		g := &c13Gen{cur: -1}
		for _, o := range ops {
			if o.kind == "O" {
				continue
			}
			if !g.ok(o) {
				return false
			}
			g.apply(o)
		}
		d, _, _ := c13Check(h2, c.Model)
		return d != nil && c13Signature(h2, d) == sig
	}
	ops := h.ops
	budget := 80
	// 1. nothing after the first diverging observation matters
	if d, _, _ := c13Check(h, c.Model); d != nil && d.block >= 0 {
		seen := -1
		for i, o := range ops {
			if o.kind == "O" {
				seen++
				if seen == d.block {
					ops = append([]c13Op{}, ops[:i+1]...)
					break
				}
			}
		}
	}
	// 2. usually the intermediate observations do not matter either
	{
		var cand []c13Op
		for i, o := range ops {
			if o.kind != "O" || i == len(ops)-1 {
				cand = append(cand, o)
			}
		}
		if len(cand) < len(ops) && try(cand) {
			ops = cand
		}
	}
	for changed := true; changed && budget > 0; {
		changed = false
		for i := len(ops) - 1; i >= 0 && budget > 0; i-- {
			if ops[i].kind == "O" && i == len(ops)-1 {
				continue
			}
			cand := append(append([]c13Op{}, ops[:i]...), ops[i+1:]...)
			budget--
			if try(cand) {
				ops = cand
				changed = true
			}
		}
	}
	h.ops = ops
	return h
}

func c13ReplayMap(h c13History, d *c13Diff, impl, model string) map[string]any {
	obs, exp := d.describe(h)
	return map[string]any{
		"entry":         "pkg.run",
		"family":        h.family,
		"input":         map[string]any{"tokens": h.tokens(false), "lisp": h.lispText()},
		"request":       h.request(),
		"observed":      obs,
		"expected":      exp,
		"expected_from": "model:pkg.run",
		"relies_on":     []string{"SlipVerif.Pkg.lookups_eq_resolve", "SlipVerif.Pkg.inv_run"},
	}
}

// c13ReportForward: the fixed single-cause cell "compile a call to an undefined function in a fresh
// package": afterwards the name must still be undefined for fboundp / find-symbol.
func c13ReportForward(c *lib.Ctx) {
	reg, obs := c13ProbeForward()
	c.Ev.Coverage["compiled_forward_call_registers_placeholder"] = reg
	c.Ev.Coverage["compiled_calls_to_names_without_entry_observed"] = !reg
	if !reg {
		return
	}
	c.Report(c13ForwardSig, true, map[string]any{
		"entry":         "pkg.forward-call",
		"family":        "sweep:forward-call",
		"input":         map[string]any{"lisp": c13ForwardLisp()},
		"observed":      obs,
		"expected":      "the call fails as an undefined function and the name stays undefined: (fboundp 'qxfwd) => nil, find-symbol status nil",
		"expected_from": "model:pkg.run (no operation of the history defines the name)",
		"relies_on":     []string{"SlipVerif.Pkg.fboundp_iff_callable", "SlipVerif.Pkg.lookup_complete_run"},
	})
}

func c13Replay(c *lib.Ctx) {
	var rec map[string]any
	if err := lib.ReadJSON(c.Replay, &rec); err != nil {
		fmt.Println("cannot read replay file:", err)
		return
	}
	if e, _ := rec["entry"].(string); e == "pkg.forward-call" {
		reg, obs := c13ProbeForward()
		fmt.Printf("replay %s\n  observed: %s\n", strings.Join(c13ForwardLisp(), " "), obs)
		if reg {
			c.Report(c13ForwardSig, false, rec)
		}
		return
	}
	in, _ := rec["input"].(map[string]any)
	toks, _ := in["tokens"].(string)
	ops, ok := c13ParseHistory(toks)
	if !ok || len(ops) == 0 {
		fmt.Println("replay file has no usable history")
		return
	}
	fam, _ := rec["family"].(string)
	h := c13History{family: fam, ops: ops}
	d, impl, model := c13Check(h, c.Model)
	fmt.Printf("replay %s\n", strings.Join(h.lispText(), " "))
	if d == nil {
		fmt.Printf("  implementation and model agree on every lookup\n")
		return
	}
	obs, exp := d.describe(h)
	fmt.Printf("  observed: %s\n  expected: %s\n", obs, exp)
	_ = impl
	_ = model
	c.Report(c13Signature(h, d), false, c13ReplayMap(h, d, impl, model))
}

func runC13(c *lib.Ctx) {
	if c.Replay != "" {
		c13Replay(c)
		return
	}
	avoid := c.Findings.Listed("C13", "prefix=chain") || c.Findings.Listed("C13", "transitive")
	c13ReportForward(c)
	var hs []c13History
	sweep := c13Sweep()
	hs = append(hs, sweep...)
	nRandom := c.Scale(1500, 6000)
	if c.GenBroken != "" {
		// an obligation over the regenerated code facts (Theorems/GenC13.lean) no longer holds: the
		// code changed where the model mirrors it — search harder for a failing history
		nRandom *= 3
		c.Ev.Coverage["witness_search_for_broken_obligation"] = c.GenBroken
	}
	random := c13Random(c.Rng, nRandom, avoid)
	hs = append(hs, random...)
	// bounded-exhaustive families: short in the quick tier, up to the full bound in the thorough tier
	e1 := c13Exhaustive(c.Scale(c13ExhLen2-1, c13ExhLen2), false, avoid)
	e2 := c13Exhaustive(c.Scale(c13ExhLen3-2, c13ExhLen3), true, avoid)
	e3 := c13Exhaustive(c.Scale(3, 4), false, avoid, true)
	nExh := len(e1) + len(e2) + len(e3)
	hs = append(hs, e1...)
	hs = append(hs, e2...)
	hs = append(hs, e3...)
	for i := range hs {
		hs[i].id = i
	}
	if fam := os.Getenv("VERIF_C13_FAMILIES"); fam != "" {
		// debugging aid: restrict the run to some families (sweep,random,exhaustive)
		var keep []c13History
		for _, h := range hs {
			if strings.Contains(fam, strings.SplitN(h.family, ":", 2)[0]) {
				keep = append(keep, h)
			}
		}
		hs = keep
		for i := range hs {
			hs[i].id = i
		}
	}
	if os.Getenv("VERIF_C13_DRY") != "" {
		fmt.Fprintf(os.Stderr, "c13: sweep %d random %d exhaustive %d\n", len(sweep), len(random), nExh)
		os.Exit(2)
	}
	reqs := make([]string, len(hs))
	for i, h := range hs {
		reqs[i] = h.request()
	}
	var replies []string
	var impls []string
	var wg sync.WaitGroup
	wg.Add(1)
	go func() { defer wg.Done(); replies = c.Model(reqs) }()
	impls = c13ImplAll(hs)
	wg.Wait()

	agree, observations, shrunk := 0, 0, 0
	sigCount := map[string]int{}
	for i, h := range hs {
		nobs, nmut, mutAfterObs, seenObs := 0, 0, false, false
		for _, o := range h.ops {
			if o.kind == "O" {
				nobs++
				seenObs = true
			} else if o.kind != "I" {
				nmut++
				if seenObs {
					mutAfterObs = true
				}
			}
		}
		observations += nobs
		c.Ev.Case(h.tokens(false), nobs >= 1 && nmut >= 2 && mutAfterObs)
		c.Ev.Hist("family", strings.SplitN(h.family, ":", 2)[0])
		c.Ev.Hist("length", fmt.Sprintf("%02d-%02d", (nmut/10)*10, (nmut/10)*10+9))
		for _, o := range h.ops {
			if o.kind != "O" {
				c.Ev.Hist("op", c13OpName(o))
			}
		}
		if i%(len(hs)/10+1) == 0 {
			c.Ev.Sample(map[string]string{"family": h.family, "history": strings.Join(h.lispText(), " "), "impl": c13Short(impls[i]), "model": c13Short(replies[i])})
		}
		d := c13Compare(h, impls[i], replies[i])
		if d == nil {
			agree++
			continue
		}
		sig := c13Signature(h, d)
		sigCount[sig]++
		isSweep := strings.HasPrefix(h.family, "sweep:")
		if isSweep {
			sig += " cell=" + h.cell
		}
		if isSweep && c.Findings.Match(c.Prop, sig) != nil {
			c.Report(sig, true, nil)
			continue
		}
		known := false
		for _, v := range c.Violations {
			if v.Signature == sig {
				known = true
			}
		}
		if known {
			continue
		}
		hh := h
		if !isSweep && shrunk < 40 {
			shrunk++
			hh = c13Shrink(c, h, sig)
			if d2, impl2, model2 := c13Check(hh, c.Model); d2 != nil {
				c.Report(sig, false, c13ReplayMap(hh, d2, impl2, model2))
				continue
			}
			hh = h
		}
		c.Report(sig, isSweep, c13ReplayMap(hh, d, impls[i], replies[i]))
	}
	sigs := make([]string, 0, len(sigCount))
	for s, n := range sigCount {
		sigs = append(sigs, fmt.Sprintf("%s x%d", s, n))
	}
	sort.Strings(sigs)
	c.Ev.Coverage["disagreement_signatures"] = sigs
	c.Ev.Coverage["traces_validated_against_impl"] = len(hs)
	c.Ev.Coverage["observation_points"] = observations
	c.Ev.Coverage["lookups_compared"] = observations * c13NPk * (c13NNm*c13NOwn + c13NPk*c13NNm*4)
	c.Ev.Coverage["agreements"] = agree
	c.Ev.Coverage["sweep_cases"] = len(sweep)
	c.Ev.Coverage["random_cases"] = len(random)
	c.Ev.Coverage["exhaustive_cases"] = nExh
	c.Ev.Coverage["avoids_transitive_use"] = avoid
	c.Ev.Coverage["tie_break_divergences_not_compared_further"] = c13TieBreakDivergences
	c.Ev.Coverage["rule"] = "case = one history (operation tokens); sweep = every single operation after each of the fixed prefixes (seed independent), random = 6..80 operations observed after every step, exhaustive (thorough) = every history of the reduced alphabet up to the bound; every observation resolves each of 2 names from each of 3 packages in 7 ways (variable, fboundp, call, q:n, q::n for variables and functions); non-trivial = >= 1 observation after >= 2 mutations, one of them after an earlier observation; distinct by token string"
}

func c13Short(s string) string {
	if len(s) > 160 {
		return s[:160] + "…"
	}
	return s
}
