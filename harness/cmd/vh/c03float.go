package main

// C03, floats: the hypotheses of `float_codec_roundtrip` checked on the implementation.
//
// The model holds a finite float as the decimal its shortest formatting names; the theorem
// `float_roundtrip` proves that the printed token reads back to that decimal and
// `float_codec_roundtrip` lifts it to binary values UNDER the contract
//   (H1) the shortest formatting of a finite float is a canonical decimal (one leading digit that is
//        not zero unless the value is zero, no trailing zero, signed exponent of >= 2 digits), and
//   (H2) parsing that decimal at the format's size gives the same bits.
// Here H1 and H2 are checked for boundary and random bit patterns of single and double floats
// (strconv, the library slip uses), and the round trip itself is run on slip — Printer.Append with
// *print-readably*, then slip.Read under every *read-default-float-format* — so that the exponent
// marker the printer chooses selects the original format whatever the default is. Long floats get
// the same treatment for the listed source texts (their precision comes from the digit count: the
// values that do not survive are listed findings and are left to their own cells).

import (
	"fmt"
	"math"
	"math/big"
	"regexp"
	"strconv"
	"strings"

	"github.com/ohler55/slip"
	"verif/harness/lib"
)

var c3FloatFormats = []string{"single-float", "double-float", "long-float", "short-float"}

var c3CanonE = regexp.MustCompile(`^-?(0|[1-9](\.[0-9]*[1-9])?)e[-+][0-9]{2,}$`)

// c3ReadFloatText reads text with *read-default-float-format* bound.
func c3ReadFloatText(text, rdff string) c3Read {
	scope := slip.NewScope()
	scope.Let(slip.Symbol("*read-default-float-format*"), slip.Symbol(rdff))
	var code slip.Code
	o := lib.Protect(func() slip.Object {
		code = slip.Read([]byte(text), scope)
		return nil
	})
	if !o.Ok {
		return c3Read{class: o.Class, msg: o.Msg}
	}
	r := c3Read{ok: true, count: len(code)}
	if len(code) > 0 {
		r.obj = code[0]
	}
	return r
}

type c3FloatCase struct {
	obj  *c3Obj
	cell string // "" for random (composite) cases
}

func c3Float32Boundaries() []float32 {
	bits := []uint32{0, 0x80000000, 1, 2, 0x007fffff, 0x00800000, 0x00800001, 0x7f7fffff, 0x7f7ffffe, 0x3f800000, 0x3f800001, 0x3f7fffff,
		0x4b000000, 0x4b7fffff, 0x4b800000, 0x4b800001, 0x4cbebc20, 0x3dcccccd, 0x3eaaaaab, 0x501502f9, 0x0a4fb11f, 0x7e967699}
	var out []float32
	for _, b := range bits {
		out = append(out, math.Float32frombits(b), -math.Float32frombits(b))
	}
	for e := -45; e <= 38; e++ {
		out = append(out, float32(math.Pow10(e)))
	}
	for _, f := range []float32{1e7, 9999999, 16777216, 16777217, 1e-4, 1e-5, 123456.79, 0.3, 1.1754942e-38, 3.4028235e38, 8388608.5, 0.1, 0.5, 1.5, 100, 1000000, 999999.9} {
		out = append(out, f)
	}
	return out
}

func c3Float64Boundaries() []float64 {
	bits := []uint64{0, 0x8000000000000000, 1, 2, 0x000fffffffffffff, 0x0010000000000000, 0x0010000000000001, 0x7fefffffffffffff, 0x7feffffffffffffe,
		0x3ff0000000000000, 0x3ff0000000000001, 0x3fefffffffffffff, 0x4340000000000000, 0x4340000000000001, 0x433fffffffffffff, 0x3fb999999999999a,
		0x3fd5555555555555, 0x44b52d02c7e14af6, 0x1a56e1fc2f8f359a}
	var out []float64
	for _, b := range bits {
		out = append(out, math.Float64frombits(b), -math.Float64frombits(b))
	}
	for e := -323; e <= 308; e += 7 {
		out = append(out, math.Pow10(e))
	}
	for e := -8; e <= 24; e++ {
		out = append(out, math.Pow10(e), 9*math.Pow10(e)+1)
	}
	for _, f := range []float64{9007199254740993, 9007199254740992, 0.1, 0.2, 0.3, 1.0 / 3, 2.0 / 3, 123456789.12345679, 5e-324, 1.7976931348623157e308, 2.2250738585072014e-308,
		2.225073858507201e-308, 1e21, 1e22, 1e23, 4.35, 0.000001, 123456, 1234567, 0.0001, 0.00001} {
		out = append(out, f)
	}
	return out
}

// c03Floats runs the float family; reports through c.Report like the main family.
func c03Floats(c *lib.Ctx, g *c3Gen) {
	var cases []c3FloatCase
	for _, f := range c3Float32Boundaries() {
		cases = append(cases, c3FloatCase{c3Single(f), fmt.Sprintf("kind=single-float class=bits:%08x", math.Float32bits(f))})
	}
	for _, f := range c3Float64Boundaries() {
		cases = append(cases, c3FloatCase{c3Double(f), fmt.Sprintf("kind=double-float class=bits:%016x", math.Float64bits(f))})
	}
	listedLong := map[string]bool{}
	for _, f := range c.Findings.Findings {
		if f.Property == "C03" && strings.HasPrefix(f.Signature, "kind=long-float class=") {
			listedLong[strings.Fields(strings.TrimPrefix(f.Signature, "kind=long-float class="))[0]] = true
		}
	}
	for _, s := range []string{"1.5L0", "1.0L0", "-2.25L3", "1.234567890123456789012345L10", "3.141592653589793238462643383279L0", "1L100", "125L0", "12.5L0",
		"100.25L-3", "7L0", "-9.87654321L-20", "1L-100", "9.99999999999999999999L+50", "0L0", "-0.0L0", "123456789012345678901234567890L-10"} {
		if !listedLong[s] {
			cases = append(cases, c3FloatCase{c3Long(s), "kind=long-float class=" + s})
		}
	}
	nRandom := c.Scale(3000, 40000)
	for i := 0; i < nRandom; i++ {
		if i%2 == 0 {
			f := math.Float32frombits(uint32(c.Rng.U64()))
			if f != f || math.IsInf(float64(f), 0) {
				continue
			}
			cases = append(cases, c3FloatCase{c3Single(f), ""})
		} else {
			f := math.Float64frombits(c.Rng.U64())
			if f != f || math.IsInf(f, 0) {
				continue
			}
			cases = append(cases, c3FloatCase{c3Double(f), ""})
		}
	}
	cf := c3DefaultCfg()
	checked, h1ok, h2ok, reads, bitIdentical := 0, 0, 0, 0, 0
	hist := map[string]int{}
	for _, fc := range cases {
		o := fc.obj
		checked++
		c.Ev.Case("float "+o.term(), true)
		report := func(aspect string, extra map[string]any) {
			cell, sweep := fc.cell, true
			if cell == "" {
				cell, sweep = "composite "+c3CellOfLeaf(o), false
			}
			rp := map[string]any{"term": o.term(), "config": cf.asMap(), "cell": cell, "sweep": sweep, "float_family": true}
			for k, v := range extra {
				rp[k] = v
			}
			c.Report(c3Signature(cell, aspect), sweep, rp)
		}
		// H1 / H2 on the library contract (single and double)
		if o.kind != "lflt" {
			bitsz := 64
			v := o.f
			if o.kind == "sflt" {
				bitsz, v = 32, float64(float32(o.f))
			}
			text := strconv.FormatFloat(v, 'e', -1, bitsz)
			if c3CanonE.MatchString(text) {
				h1ok++
			} else {
				report("codec-hypothesis:not-canonical", map[string]any{"observed": text, "expected": "d[.ddd]e±XX without trailing zeros",
					"expected_from": "hypothesis hcanon of SlipVerif.Theorems.C03.float_codec_roundtrip"})
			}
			back, err := strconv.ParseFloat(text, bitsz)
			same := err == nil && math.Float64bits(back) == math.Float64bits(v)
			if bitsz == 32 {
				same = err == nil && math.Float32bits(float32(back)) == math.Float32bits(float32(v))
			}
			if same {
				h2ok++
			} else {
				report("codec-hypothesis:parse-of-format", map[string]any{"observed": fmt.Sprint(back), "expected": text,
					"expected_from": "hypothesis hinv of SlipVerif.Theorems.C03.float_codec_roundtrip"})
			}
			exp := 0
			if _, _, e, ok := c3SplitE(text); ok {
				exp = e
			}
			hist[fmt.Sprintf("%s exp10 %+04d..", o.kind, exp/20*20)]++
		}
		// the round trip on slip under every default float format
		x := o.object()
		text, class := c3Print(cf, x)
		if class != "" {
			report("print-condition:"+class, map[string]any{"observed": "printer condition " + class, "expected": "a token"})
			continue
		}
		for _, rdff := range c3FloatFormats {
			back := c3ReadFloatText(text, rdff)
			reads++
			aspect := ""
			switch {
			case !back.ok:
				aspect = "read-condition:" + back.class
			case back.count != 1:
				aspect = fmt.Sprintf("read-count:%d", minInt(back.count, 3))
			default:
				aspect = c3Compare(x, back.obj)
			}
			if aspect != "" {
				report("default-format:"+rdff+":"+aspect, map[string]any{"printed": text, "observed": fmt.Sprintf("read back under *read-default-float-format* %s: %s (%s)", rdff, slip.ObjectString(back.obj), c3TypeOf(back.obj)),
					"expected": "the same float of type " + c3TypeOf(x), "expected_from": "property statement (floats of each format)"})
				break
			}
			switch tx := x.(type) {
			case slip.SingleFloat:
				if ty, ok := back.obj.(slip.SingleFloat); ok && math.Float32bits(float32(tx)) == math.Float32bits(float32(ty)) {
					bitIdentical++
				}
			case slip.DoubleFloat:
				if ty, ok := back.obj.(slip.DoubleFloat); ok && math.Float64bits(float64(tx)) == math.Float64bits(float64(ty)) {
					bitIdentical++
				}
			case *slip.LongFloat:
				if ty, ok := back.obj.(*slip.LongFloat); ok && (*big.Float)(tx).Cmp((*big.Float)(ty)) == 0 && (*big.Float)(tx).Prec() == (*big.Float)(ty).Prec() {
					bitIdentical++
				}
			}
		}
	}
	for k, v := range hist {
		for i := 0; i < v; i += 50 {
			c.Ev.Hist("float_exponent_class", k)
		}
	}
	c.Ev.Coverage["float_cases"] = checked
	c.Ev.Coverage["float_codec_canonical_ok"] = h1ok
	c.Ev.Coverage["float_codec_parse_of_format_ok"] = h2ok
	c.Ev.Coverage["float_reads_under_default_formats"] = reads
	c.Ev.Coverage["float_reads_bit_identical"] = bitIdentical
}
