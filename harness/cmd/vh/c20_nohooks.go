//go:build !(verif && verifhooks)

package main

// Fallback for a repository without the verif hook files: no crash points inside an operation can
// be observed; the harness still restarts after every operation and simulates process deaths by
// putting the directory into the state the model computes for the crash point.

const c20HaveHooks = false

func c20SetHook(fn func(point string)) {}
