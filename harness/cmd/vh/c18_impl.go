package main

// C18 — running the real implementation: bags are created and operated on through the Lisp
// functions / flavor methods (evaluated with Scope.Eval), the resulting Go tree is read from the
// instance for comparison.

import (
	"fmt"
	"strings"

	"github.com/ohler55/ojg/jp"
	"github.com/ohler55/slip"
	"github.com/ohler55/slip/pkg/bag"
	"github.com/ohler55/slip/pkg/flavors"
	"verif/harness/lib"
)

type c18Impl struct {
	scope  *slip.Scope
	healed int // how often a failed parse had damaged the shared parser (outside the recover family)
}

func newC18Impl() *c18Impl { return &c18Impl{scope: slip.NewScope()} }

// eval evaluates src with the given variable bindings.
func (m *c18Impl) eval(src string, binds map[string]slip.Object) lib.Outcome {
	for k, v := range binds {
		m.scope.Let(slip.Symbol(k), v)
	}
	return lib.EvalString(m.scope, src)
}

// makeBag parses text into a new bag; via selects the constructor.
func (m *c18Impl) makeBag(text string, via int) (*flavors.Instance, lib.Outcome) {
	var o lib.Outcome
	switch via % 3 {
	case 0:
		o = m.eval("(make-bag c18-text)", map[string]slip.Object{"c18-text": slip.String(text)})
	case 1:
		o = m.eval("(make-instance 'bag-flavor :parse c18-text)", map[string]slip.Object{"c18-text": slip.String(text)})
	default:
		o = m.eval("(bag-parse (make-instance 'bag-flavor) c18-text)", map[string]slip.Object{"c18-text": slip.String(text)})
	}
	if !o.Ok {
		m.heal()
		return nil, o
	}
	inst, ok := o.Value.(*flavors.Instance)
	if !ok {
		o.Ok = false
		o.Class = "not-a-bag"
		return nil, o
	}
	return inst, o
}

// healthy: a document with quoted strings in an array and in an object parses to what it says.
func (m *c18Impl) healthy() bool {
	o := m.eval(`(make-bag "[\"p q\" {\"k\": \"v w\"}]")`, nil)
	if !o.Ok {
		return false
	}
	a, ok := bagAny(o.Value)
	return ok && canonAny(a) == canonAny([]any{"p q", map[string]any{"k": "v w"}})
}

// heal: after a parse that raised, later parses must not be affected. Where they are (a defect
// the recover family reports with its own cells), the shared parser is brought back to its
// initial state by parsing top-level strings, so that the defect does not spill into the checks
// that follow. Returns whether the parser was found damaged.
func (m *c18Impl) heal() bool {
	if m.healthy() {
		return false
	}
	for i := 0; i < 8 && !m.healthy(); i++ {
		m.eval(`(make-bag "\"h\"")`, nil)
	}
	m.healed++
	return true
}

func bagAny(o slip.Object) (any, bool) {
	inst, ok := o.(*flavors.Instance)
	if !ok || inst.Type != bag.Flavor() {
		return nil, false
	}
	return inst.Any, true
}

// pathObject gives the path argument: JSONPath text when possible (and wanted), else a bag-path.
func pathObject(p ppath, preferString bool, rooted bool) slip.Object {
	if preferString {
		if s, ok := p.str(rooted); ok {
			return slip.String(s)
		}
	}
	if !rooted && len(p) > 0 {
		return bag.Path(p.exprFrom(jp.Expr{}))
	}
	return bag.Path(p.expr())
}

type c18WriteOpts struct {
	pretty  int // -1 absent, 0 nil, 1 t
	depth   int // -1 absent
	json    int // -1 absent, 0 nil, 1 t
	margin  int // -1 absent
	color   int // -1 absent, 0 nil
	viaSend bool
	timeFormat, timeWrap string
}

func (w c18WriteOpts) String() string {
	var parts []string
	tf := func(n int) string {
		if n == 1 {
			return "t"
		}
		return "nil"
	}
	if w.pretty >= 0 {
		parts = append(parts, ":pretty "+tf(w.pretty))
	}
	if w.depth >= 0 {
		parts = append(parts, fmt.Sprintf(":depth %d", w.depth))
	}
	if w.json >= 0 {
		parts = append(parts, ":json "+tf(w.json))
	}
	if w.margin >= 0 {
		parts = append(parts, fmt.Sprintf(":right-margin %d", w.margin))
	}
	if w.color >= 0 {
		parts = append(parts, ":color nil")
	}
	if w.timeFormat != "" {
		parts = append(parts, fmt.Sprintf(":time-format %q", w.timeFormat))
	}
	if w.timeWrap != "" {
		parts = append(parts, fmt.Sprintf(":time-wrap %q", w.timeWrap))
	}
	return strings.Join(parts, " ")
}

// mode names the writer branch write.go takes for these options (signature part).
// wire: the keyword list for the model's `json wopts` entry.
func (w c18WriteOpts) wire() string {
	var parts []string
	tf := func(n int) string {
		if n == 1 {
			return "t"
		}
		return "n"
	}
	if w.pretty >= 0 {
		parts = append(parts, ":pretty "+tf(w.pretty))
	}
	if w.depth >= 0 {
		parts = append(parts, fmt.Sprintf(":depth x%d", w.depth))
	}
	if w.json >= 0 {
		parts = append(parts, ":json "+tf(w.json))
	}
	if w.margin >= 0 {
		parts = append(parts, fmt.Sprintf(":right-margin x%d", w.margin))
	}
	if w.color >= 0 {
		parts = append(parts, ":color n")
	}
	if w.timeFormat != "" {
		parts = append(parts, ":time-format s"+lib.Hex(w.timeFormat))
	}
	if w.timeWrap != "" {
		parts = append(parts, ":time-wrap s"+lib.Hex(w.timeWrap))
	}
	return strings.Join(parts, " ")
}

func (w c18WriteOpts) mode() string {
	pretty := w.pretty != 0 // *print-pretty* defaults to t
	depth := 4
	if w.depth >= 0 {
		depth = w.depth
	}
	form := "sen"
	if w.json == 1 {
		form = "json"
	}
	if pretty && depth > 1 {
		return "pretty-" + form
	}
	return "plain-" + form
}

func (m *c18Impl) write(b *flavors.Instance, w c18WriteOpts) lib.Outcome {
	src := "(bag-write c18-b nil " + w.String() + ")"
	if w.viaSend {
		src = "(send c18-b :write nil " + w.String() + ")"
	}
	return m.eval(src, map[string]slip.Object{"c18-b": b})
}
