package main

// C18 — the single-cause sweep: finite, seed-independent tables of minimal cases. Only these
// cells can be excused by findings/C18.json.

import (
	"math"
	"strings"
)

func c18SweepLeaves() []*jv {
	out := []*jv{jNull(), jBool(true), jBool(false)}
	for _, s := range []string{"0", "-1", "7", "2147483648", "-2147483649", "9007199254740993", "922337203685477579", "-922337203685477579"} {
		out = append(out, jBig(bigOf(s)))
	}
	for _, s := range c18BigInts {
		out = append(out, jBig(bigOf(s)))
	}
	for _, f := range []float64{1.5, -0.1, 0.1, 1e-300, 1.7976931348623157e308, 5e-324, 3.141592653589793, 1e22, 1.5e300, -2.5e-7,
		5, 1000, -3, 0, math.Copysign(0, -1), 1e21, 1e15, 123456789, 0.0015893863507408824, -0.004078485735602683} {
		out = append(out, jFlo(f))
	}
	for _, s := range c18Strings {
		out = append(out, jStr(s))
	}
	out = append(out, jArr(), jObj())
	return out
}

func c18AllWriteOpts() []c18Opts {
	var out []c18Opts
	for _, pretty := range []int{-1, 0, 1} {
		for _, depth := range []int{-1, 0, 1, 2} {
			for _, js := range []int{0, 1} {
				out = append(out, c18Opts{Pretty: pretty, Depth: depth, JSON: js, Margin: -1, Color: -1})
			}
		}
	}
	out = append(out, c18Opts{Pretty: -1, Depth: -1, JSON: 0, Margin: -1, Color: -1, TimeFormat: "second"},
		c18Opts{Pretty: -1, Depth: 0, JSON: 1, Margin: -1, Color: -1, TimeFormat: "nano", TimeWrap: "t"})
	return out
}

func w(v *jv) string { return strings.Join(v.wire(), " ") }

func (r *c18Run) sweepCases() (text, native, ops, simple []*c18Case) {
	leaves := c18SweepLeaves()
	opts := c18AllWriteOpts()
	// --- text: one leaf kind x placement x every writer mode
	for _, leaf := range leaves {
		for pi, doc := range []*jv{leaf, jArr(leaf), jObj("a", leaf)} {
			text = append(text, &c18Case{Family: "text", Doc: w(doc), Layout: []string{"c", "i2", "c"}[pi], Opts: opts, Sweep: true, Cell: "leaf"})
		}
	}
	for _, k := range append(append([]string{}, c18Keys...), c18OddKeys...) {
		text = append(text, &c18Case{Family: "text", Doc: w(jObj(k, jInt(1))), Layout: "c", Opts: opts, Sweep: true, Cell: "key"})
	}
	text = append(text, &c18Case{Family: "text", Doc: w(jObj("a", jArr(jInt(1), jObj("b", jArr(jArr(), jObj()), "c", jStr("x"))), "d", jObj("e", jObj("f", jObj("g", jArr(jInt(1), jInt(2))))))),
		Layout: "i2", Opts: opts, Sweep: true, Cell: "nest"})
	// --- native: one leaf kind x placement
	for _, leaf := range leaves {
		for vi, doc := range []*jv{leaf, jArr(leaf), jObj("a", leaf), jArr(jArr(leaf)), jObj("a", jObj("b", leaf)), jArr(jInt(1), leaf), jObj("a", jInt(1), "b", leaf)} {
			native = append(native, &c18Case{Family: "native", Doc: w(doc), Via: vi, Sweep: true, Cell: "leaf"})
		}
	}
	// --- ops: one op x a one or two step path x a small document
	vals := []*jv{jNull(), jInt(1), jStr("s"), jObj(), jArr(), jObj("k", jInt(1)), jArr(jInt(1)), jObj("k", jObj("k", jInt(1))), jArr(jArr(jInt(1))),
		jObj("k", jArr(jInt(1), jInt(2))), jArr(jObj("k", jInt(1)), jInt(2)), jArr(jInt(1), jInt(2), jInt(3))}
	var docs []*jv
	for _, v := range vals {
		docs = append(docs, jObj("k", v), jArr(v))
	}
	docs = append(docs, jObj("k", jInt(1), "m", jObj("k", jInt(2))), jArr(jInt(1), jArr(jInt(2), jInt(3))), jInt(7), jNull(), jStr("s"))
	steps := []pstep{{kind: 'k', key: "k"}, {kind: 'k', key: "z"}, {kind: 'x', idx: 0}, {kind: 'x', idx: 1}, {kind: 'x', idx: -1},
		{kind: 'x', idx: 5}, {kind: 'x', idx: -5}, {kind: '*'}, {kind: 'd'}}
	var paths []ppath
	for _, a := range steps {
		paths = append(paths, ppath{a})
		for _, b := range steps {
			if a.kind == 'd' && b.kind == 'd' {
				continue
			}
			paths = append(paths, ppath{a, b})
		}
	}
	setVals := []*jv{jInt(9), jNull(), jObj("q", jInt(1)), jArr(jInt(8))}
	for _, doc := range docs {
		for _, p := range paths {
			pw := strings.Join(p.wire(), " ")
			for mode, op := range []string{"G", "H", "A", "W", "R"} {
				ops = append(ops, &c18Case{Family: "ops", Doc: w(doc), Sweep: true, Cell: "one-op", Ops: []c18Op{{Op: op, Path: pw, Mode: (mode % 4) + 8*(len(pw)%2)}}})
			}
			if p.definite() {
				ops = append(ops, &c18Case{Family: "ops", Doc: w(doc), Sweep: true, Cell: "one-op", Ops: []c18Op{{Op: "N", Path: pw, Mode: len(pw) % 4}}})
			}
			for vi, v := range setVals {
				if p.hasDescent() && (v.kind == 'a' || v.kind == 'o') {
					continue // see genOp: the walk of a descent enters the placed value
				}
				ops = append(ops, &c18Case{Family: "ops", Doc: w(doc), Sweep: true, Cell: "one-op", Ops: []c18Op{{Op: "S", Path: pw, Value: w(v), Mode: (vi % 4) + 8*(len(pw)%2) + 16*((vi+len(pw)/2)%4)}}})
			}
		}
	}
	// --- ops: a container value placed at several nodes by one set, then changed at one of them
	pa := func(s ...pstep) string { return strings.Join(ppath(s).wire(), " ") }
	k := func(s string) pstep { return pstep{kind: 'k', key: s} }
	x := func(i int) pstep { return pstep{kind: 'x', idx: i} }
	star, desc := pstep{kind: '*'}, pstep{kind: 'd'}
	shared := []struct {
		doc   *jv
		first c18Op
		then  c18Op
		look  string
	}{
		{jObj("a", jArr(jInt(1), jInt(2))), c18Op{Op: "S", Path: pa(k("a"), star), Value: w(jObj("q", jInt(1)))}, c18Op{Op: "S", Path: pa(k("a"), x(0), k("q")), Value: "i5"}, pa(k("a"), x(1), k("q"))},
		{jObj("a", jArr(jInt(1), jInt(2))), c18Op{Op: "S", Path: pa(k("a"), star), Value: w(jArr(jInt(1), jInt(2)))}, c18Op{Op: "S", Path: pa(k("a"), x(0), x(0)), Value: "i5"}, pa(k("a"), x(1), x(0))},
		{jObj("a", jObj("p", jInt(1), "r", jInt(2))), c18Op{Op: "S", Path: pa(k("a"), star), Value: w(jObj("q", jInt(1)))}, c18Op{Op: "R", Path: pa(k("a"), k("p"), k("q"))}, pa(k("a"), k("r"), k("q"))},
		{jObj("a", jObj(), "b", jObj()), c18Op{Op: "S", Path: pa(desc, k("z")), Value: w(jArr(jInt(1), jInt(2)))}, c18Op{Op: "S", Path: pa(k("a"), k("z"), x(0)), Value: "i5"}, pa(k("b"), k("z"), x(0))},
	}
	for _, s := range shared {
		for _, mode := range []int{0, 4} {
			f := s.first
			f.Mode = mode
			ops = append(ops, &c18Case{Family: "ops", Doc: w(s.doc), Sweep: true, Cell: "shared-value",
				Ops: []c18Op{f, s.then, {Op: "G", Path: s.look}}})
		}
	}
	// --- ops: has / get / get-all / walk / remove agree for every path SHAPE (bare key, rooted,
	// nested, index, negative index, wildcard, descent; JSONPath text rooted and relative, bag-path
	// objects rooted and relative; function and method) x every value kind — null included — at
	// depth 1, 2 and 3, below objects, arrays and both mixed
	shapeVals := []*jv{jNull(), jBool(true), jBool(false), jInt(0), jInt(-1), jFlo(1.5), jStr(""), jStr("s"), jArr(), jObj(),
		jArr(jNull()), jObj("k", jNull())}
	type shaped struct {
		doc  *jv
		leaf ppath
	}
	for vi, v := range shapeVals {
		var docs []shaped
		// objects only, arrays only, object in array in object, array in object in array; depth 1..3;
		// the leaf has a sibling before and after it
		docs = append(docs,
			shaped{jObj("a", jInt(7), "k", v, "z", jInt(8)), ppath{k("k")}},
			shaped{jArr(jInt(7), v, jInt(8)), ppath{x(1)}},
			shaped{jObj("a", jObj("b", jInt(7), "k", v), "z", jInt(8)), ppath{k("a"), k("k")}},
			shaped{jArr(jInt(7), jArr(v, jInt(8))), ppath{x(1), x(0)}},
			shaped{jObj("a", jArr(jInt(7), v)), ppath{k("a"), x(1)}},
			shaped{jArr(jObj("k", v, "z", jInt(8)), jInt(7)), ppath{x(0), k("k")}},
			shaped{jObj("a", jObj("b", jObj("k", v, "z", jInt(8)))), ppath{k("a"), k("b"), k("k")}},
			shaped{jArr(jArr(jArr(jInt(7), v))), ppath{x(0), x(0), x(1)}},
			shaped{jObj("a", jArr(jObj("k", v), jInt(7))), ppath{k("a"), x(0), k("k")}},
			shaped{jArr(jObj("a", jArr(v, jInt(8)))), ppath{x(0), k("a"), x(0)}})
		for di, sd := range docs {
			last := sd.leaf[len(sd.leaf)-1]
			parent := sd.leaf[:len(sd.leaf)-1]
			var paths []ppath
			paths = append(paths, sd.leaf)                                          // the leaf itself
			paths = append(paths, append(append(ppath{}, parent...), star))       // its parent's children
			if last.kind == 'k' {
				paths = append(paths, append(append(ppath{}, parent...), k("nope"))) // a member that is not there
				paths = append(paths, ppath{desc, last})                          // found by a descent
			} else {
				paths = append(paths, append(append(ppath{}, parent...), x(9)))  // an element that is not there
				paths = append(paths, append(append(ppath{}, parent...), x(-1))) // counted from the end
			}
			for pi, p := range paths {
				pw := strings.Join(p.wire(), " ")
				// path forms: bit 1 = send, bit 2 = bag-path object instead of text, bit 8 = relative
				for _, mode := range []int{0, 8, 2, 10} {
					m := mode | ((vi + di + pi) & 1)
					ops = append(ops, &c18Case{Family: "ops", Doc: w(sd.doc), Sweep: true, Cell: "shape",
						Ops: []c18Op{{Op: "H", Path: pw, Mode: m}, {Op: "G", Path: pw, Mode: m}, {Op: "A", Path: pw, Mode: m ^ 1}, {Op: "W", Path: pw, Mode: m}}})
					if p.definite() {
						ops = append(ops, &c18Case{Family: "ops", Doc: w(sd.doc), Sweep: true, Cell: "shape",
							Ops: []c18Op{{Op: "N", Path: pw, Mode: m}, {Op: "R", Path: pw, Mode: m}, {Op: "H", Path: pw, Mode: m ^ 1}, {Op: "G", Path: pw, Mode: m}}})
					} else {
						ops = append(ops, &c18Case{Family: "ops", Doc: w(sd.doc), Sweep: true, Cell: "shape",
							Ops: []c18Op{{Op: "R", Path: pw, Mode: m}, {Op: "H", Path: pw, Mode: m ^ 1}, {Op: "A", Path: pw, Mode: m}}})
					}
				}
			}
		}
	}
	// --- ops: a wildcard immediately followed by a descent (arrays only: deterministic)
	wd := jArr(jArr(), jObj("b", jObj("c", jInt(1))))
	for _, op := range []string{"G", "H", "A", "W", "R"} {
		ops = append(ops, &c18Case{Family: "ops", Doc: w(wd), Sweep: true, Cell: "wild-desc", Ops: []c18Op{{Op: op, Path: pa(star, desc, k("c"))}}})
	}
	ops = append(ops, &c18Case{Family: "ops", Doc: w(wd), Sweep: true, Cell: "wild-desc", Ops: []c18Op{{Op: "S", Path: pa(star, desc, k("c")), Value: "i9"}}})
	// --- simplify: one Go kind at its boundaries x placement
	var gvs []*gv
	gvs = append(gvs, &gv{kind: 'n'}, &gv{kind: 'b', b: true}, &gv{kind: 'b'})
	for _, bits := range []int{0, 8, 16, 32, 64} {
		wd := bits
		if wd == 0 {
			wd = 64
		}
		for _, v := range []int64{0, -1, 1, math.MaxInt64 >> (64 - wd), math.MinInt64 >> (64 - wd)} {
			gvs = append(gvs, &gv{kind: 'i', bits: bits, i: v})
		}
		for _, v := range []uint64{0, 1, math.MaxUint64 >> (64 - wd), uint64(1) << (wd - 1), (uint64(1) << (wd - 1)) - 1} {
			gvs = append(gvs, &gv{kind: 'u', bits: bits, u: v})
		}
	}
	gvs = append(gvs, &gv{kind: 'f', f: 1.5}, &gv{kind: 'f', f: float64(float32(0.1))}, &gv{kind: 'd', f: 0.1}, &gv{kind: 'd', f: 1e300}, &gv{kind: 'd', f: 5},
		&gv{kind: 's', s: ""}, &gv{kind: 's', s: "é\n"}, &gv{kind: 'm', i: 1704164645, u: 6}, &gv{kind: 'm', i: 0, u: 0},
		&gv{kind: '['}, &gv{kind: '{'})
	for _, v := range gvs {
		for _, val := range []*gv{v, {kind: '[', arr: []*gv{v}}, {kind: '{', keys: []string{"a"}, vals: []*gv{v}}, {kind: '[', arr: []*gv{{kind: '{', keys: []string{"a"}, vals: []*gv{v}}}}} {
			simple = append(simple, &c18Case{Family: "simplify", GoVal: strings.Join(val.wire(), " "), Sweep: true, Cell: "kind"})
		}
	}
	return
}

// sweepMulti: every entry point x callback/channel x strict/SEN x input form over fixed small
// document lists (objects nested in objects and arrays, arrays, scalars), and scan cells.
func (r *c18Run) sweepMulti() (multi, scan []*c18Case) {
	lists := [][]*jv{
		{jObj("id", jInt(1), "sub", jObj("x", jArr(jInt(1), jInt(2))))},
		{jObj("id", jInt(1), "sub", jObj("x", jArr(jInt(1), jInt(2)))), jObj("id", jInt(2), "sub", jObj("y", jNull())), jArr(jInt(3), jObj("z", jBool(true))), jObj("id", jInt(4))},
		{jArr(jInt(1), jInt(2)), jArr(jArr(jInt(3)), jObj("a", jArr()))},
		{jObj("a", jObj("b", jObj("c", jInt(1)))), jObj("a", jObj("b", jObj("c", jInt(2)))), jObj("a", jObj("b", jObj("c", jInt(3))))},
		{jObj(), jObj("k", jStr("v")), jArr()},
	}
	scalars := []*jv{jInt(7), jStr("s"), jNull(), jBool(true), jFlo(1.5)}
	type ent struct {
		name    string
		forms   []int
		strict  []bool
		channel []bool
		single  bool
		scalars bool
	}
	ents := []ent{
		{"json-parse", []int{0, 1, 2}, []bool{false, true}, []bool{false, true}, false, true},
		{"discover-json", []int{0, 1, 2}, []bool{false, true}, []bool{false, true}, false, false},
		{"each-bag", []int{2, 3}, []bool{false}, []bool{false}, false, true},
		{"bag-read", []int{2}, []bool{false}, []bool{false}, true, true},
		{"send-read", []int{2}, []bool{false}, []bool{false}, true, true},
		{"init-read", []int{2}, []bool{false}, []bool{false}, true, true},
		{"load-bag", []int{3}, []bool{false}, []bool{false}, true, true},
		{"make-bag", []int{1}, []bool{false}, []bool{false}, true, true},
	}
	for _, e := range ents {
		for _, form := range e.forms {
			for _, strict := range e.strict {
				for _, ch := range e.channel {
					for li, l := range lists {
						docs := l
						if e.single {
							docs = l[:1]
						}
						if e.name == "discover-json" && li == 4 {
							continue // empty containers are not what discover looks for
						}
						for _, lay := range []string{"c", "i2"} {
							cs := &c18Case{Family: "multi", Entry: e.name, Form: form, Strict: strict, Channel: ch, Layout: lay, Sweep: true, Cell: "entry"}
							for _, d := range docs {
								cs.Docs = append(cs.Docs, w(d))
								cs.Seps = append(cs.Seps, "\n")
							}
							multi = append(multi, cs)
						}
					}
					if e.scalars {
						cs := &c18Case{Family: "multi", Entry: e.name, Form: form, Strict: strict, Channel: ch, Layout: "c", Sweep: true, Cell: "entry-scalars"}
						n := len(scalars)
						if e.single {
							n = 1
						}
						for _, d := range scalars[:n] {
							cs.Docs = append(cs.Docs, w(d))
							cs.Seps = append(cs.Seps, " ")
						}
						multi = append(multi, cs)
					}
				}
			}
		}
	}
	for _, d := range []*jv{jInt(7), jNull(), jArr(), jObj(), jObj("a", jArr(jInt(1), jObj("b", jNull(), "c", jArr(), "d", jObj())), "e", jBool(false)),
		jArr(jArr(jArr(jInt(1))), jStr("x")), jObj("a b", jInt(1), "", jInt(2), "é", jInt(3), "k\"q", jInt(4), "a.b", jInt(5), "[0]", jInt(6))} {
		for via := 0; via < 2; via++ {
			for _, leaves := range []bool{false, true} {
				scan = append(scan, &c18Case{Family: "scan", Doc: w(d), Via: via, Strict: leaves, Sweep: true, Cell: "scan"})
			}
		}
	}
	return
}
