package main

// C02 (e) — histories on ONE input stream that mix cl:read with the character level operations
// read-char, unread-char, peek-char, read-line, read-byte, on every kind of input stream slip has:
// what was consumed so far plus the forms read must be the whole-text reading of the same bytes.
// The expectation is the model's cursor over the L1 reading (`read hist`, Model/ReaderHist.lean);
// the kind of stream (seekable or not, pushed back characters, one byte reads) must not matter.

import (
	"bytes"
	"fmt"
	"os"
	"path/filepath"
	"strings"
	"sync/atomic"
	"time"
	"unicode/utf8"

	"github.com/ohler55/slip"
	"verif/harness/lib"
)

// stream kinds: name, constructor, which operations the kind supports
type c02StreamKind struct {
	name   string
	ops    string // operation letters the kind supports (R C U P T L B)
	unread bool
}

var c02StreamKinds = []c02StreamKind{
	{"string-stream", "RCPTLB", false},              // make-string-input-stream: seekable
	{"input-stream/bytes.Reader", "RCUPTLB", true},  // with-input-from-octets
	{"input-stream/string-stream", "RCUPTLB", true}, // with-input-from-string
	{"input-stream/cut-reader", "RCUPTLB", true},    // a plain io.Reader (socket, pipe) handing out pieces
	{"file-stream", "RCLB", false},                  // open: seekable, no unread
}

func c02MakeStream(kind string, text []byte, plan c02Plan, dir string) (slip.Object, func()) {
	lispMade := func(src string) slip.Object {
		// through the Lisp level constructors (valid UTF-8 only: a Lisp string holds characters)
		sc := slip.NewScope()
		sc.Let(slip.Symbol("c02-text"), slip.String(text))
		return sc.Eval(c02Form(src), 0)
	}
	switch kind {
	case "string-stream":
		if utf8.Valid(text) {
			return lispMade("(make-string-input-stream c02-text)"), func() {}
		}
		return slip.NewStringStream(append([]byte{}, text...)), func() {}
	case "input-stream/bytes.Reader":
		return slip.NewInputStream(bytes.NewReader(text)), func() {}
	case "input-stream/string-stream":
		if utf8.Valid(text) {
			return lispMade("(with-input-from-string (c02-s c02-text) c02-s)"), func() {}
		}
		return slip.NewInputStream(slip.NewStringStream(append([]byte{}, text...))), func() {}
	case "input-stream/cut-reader":
		return slip.NewInputStream(plan.reader(text)), func() {}
	case "file-stream":
		// a name of its own per stream: a history abandoned at its deadline may still be running
		path := filepath.Join(dir, fmt.Sprintf("c02-stream-%d-%d.lisp", os.Getpid(), c02FileSeq.Add(1)))
		if err := os.WriteFile(path, text, 0o644); err != nil {
			fmt.Fprintln(os.Stderr, "C02 harness: cannot write", path, err)
			os.Exit(2)
		}
		f, err := os.Open(path)
		if err != nil {
			fmt.Fprintln(os.Stderr, "C02 harness: cannot open", path, err)
			os.Exit(2)
		}
		return (*slip.FileStream)(f), func() { _ = f.Close(); _ = os.Remove(path) }
	}
	panic("c02MakeStream: " + kind)
}

var c02FileSeq atomic.Uint64

var c02HistForms map[byte]slip.Object

func c02HistForm(op byte) slip.Object {
	if c02HistForms == nil {
		c02HistForms = map[byte]slip.Object{
			'R': c02Form("(read c02-in)"),
			'C': c02Form("(read-char c02-in nil 'c02-eof)"),
			'U': c02Form("(unread-char c02-ch c02-in)"),
			'P': c02Form("(peek-char nil c02-in nil 'c02-eof)"),
			'T': c02Form("(peek-char t c02-in nil 'c02-eof)"),
			'L': c02Form("(read-line c02-in nil 'c02-eof)"),
			'B': c02Form("(read-byte c02-in nil 'c02-eof)"),
		}
	}
	return c02HistForms[op]
}

func c02IsEOFSym(o slip.Object) bool {
	sym, ok := o.(slip.Symbol)
	return ok && strings.EqualFold(string(sym), "c02-eof")
}

// c02RunHist performs the operations on one stream and returns the trace in the model's syntax.
func c02RunHist(kind string, text []byte, ops string, plan c02Plan, cfg c02Cfg, dir string) (trace []string) {
	scope := cfg.scope()
	stream, done := c02MakeStream(kind, text, plan, dir)
	defer done()
	scope.Let(slip.Symbol("c02-in"), stream)
	var lastChar slip.Object
	for i := 0; i < len(ops); i++ {
		op := ops[i]
		stop := false
		if op == 'U' && lastChar == nil {
			// no character was just read (end of file): nothing to unread, as in the model
			trace = append(trace, "illegal")
			continue
		}
		func() {
			defer func() {
				if r := recover(); r != nil {
					stop = true
					switch tr := r.(type) {
					case *slip.PartialPanic:
						_ = tr
						trace = append(trace, "failed")
					case *slip.Panic:
						class := strings.ToLower(string(tr.Hierarchy()[0]))
						switch {
						case op == 'R' && class == "end-of-file":
							trace = append(trace, "eof")
							stop = false
						case op == 'R':
							trace = append(trace, "failed") // parse error or incomplete form (scope.Eval wraps both)
						default:
							trace = append(trace, "panic:"+class)
						}
					default:
						if op == 'R' {
							trace = append(trace, "failed")
						} else {
							trace = append(trace, fmt.Sprintf("panic:%T", r))
						}
					}
				}
			}()
			if op == 'U' {
				scope.Let(slip.Symbol("c02-ch"), lastChar)
			}
			v := scope.Eval(c02HistForm(op), 0)
			lastChar = nil
			switch op {
			case 'R':
				trace = append(trace, "read:"+c02Render(v))
			case 'C':
				if c02IsEOFSym(v) {
					trace = append(trace, "eof")
				} else if ch, ok := v.(slip.Character); ok {
					trace = append(trace, fmt.Sprintf("char:%d", int64(ch)))
					lastChar = v
				} else {
					trace = append(trace, "?"+c02Render(v))
				}
			case 'U':
				trace = append(trace, "unread")
			case 'P', 'T':
				if c02IsEOFSym(v) {
					trace = append(trace, "eof")
				} else if ch, ok := v.(slip.Character); ok {
					trace = append(trace, fmt.Sprintf("peek:%d", int64(ch)))
				} else {
					trace = append(trace, "?"+c02Render(v))
				}
			case 'L':
				vals, _ := v.(slip.Values)
				if len(vals) == 2 && c02IsEOFSym(vals[0]) {
					trace = append(trace, "eof")
				} else if len(vals) == 2 {
					str, _ := vals[0].(slip.String)
					missing := "nil"
					if vals[1] != nil {
						missing = "t"
					}
					trace = append(trace, "line:"+c02Hex([]byte(str))+":"+missing)
				} else {
					trace = append(trace, "?"+c02Render(v))
				}
			case 'B':
				if c02IsEOFSym(v) {
					trace = append(trace, "eof")
				} else if n, ok := v.(slip.Fixnum); ok {
					trace = append(trace, fmt.Sprintf("byte:%d", int64(n)))
				} else {
					trace = append(trace, "?"+c02Render(v))
				}
			}
		}()
		if stop {
			break
		}
	}
	return
}

// c02RunHistTimed is c02RunHist with a first-pass deadline: a stream operation that no longer
// terminates (a pushed back character handed out for ever) must not hang the check. Exceeding the
// deadline is only a suspicion (the machine may be busy): the history is then re-run alone in a
// worker process under a CPU time limit (c02RunAlone); what the worker observed is the trace, and only
// when the worker does not finish either the trace is the single item "hang" (or "crash"), a
// disagreement with every model trace. The abandoned goroutine is left behind.
func c02RunHistTimed(c *lib.Ctx, kind string, text []byte, ops string, plan c02Plan, cfg c02Cfg, dir string) []string {
	job := &c02Job{Kind: "hist", StreamKind: kind, text: text, Plan: plan, Base: cfg.Base, Sym: cfg.Sym, Ops: ops}
	c02Enter(job)
	ch := make(chan []string, 1)
	go func() { ch <- c02RunHist(kind, text, ops, plan, cfg, dir) }()
	timer := time.NewTimer(c02HistFirstPass)
	defer timer.Stop()
	select {
	case tr := <-ch:
		return tr
	case <-timer.C:
	}
	c02Leave()
	c.Ev.Count("histories_rerun_alone", 1)
	fmt.Fprintf(os.Stderr, "C02 harness: a history did not finish within %v, re-running it alone: %s\n", c02HistFirstPass, job.describe())
	res, verdict, detail := c02RunAlone(c, job)
	if verdict == "done" {
		return res.Trace
	}
	fmt.Fprintf(os.Stderr, "C02 harness: history %s: %s (%s)\n", job.describe(), verdict, detail)
	return []string{verdict}
}

// c02HistOps builds a random legal operation string for a stream kind: unread-char only directly
// after a read-char; read-byte not directly after unreading (a multi-byte character cannot be read
// as a byte); reads dominate so that the history gets through the text.
func c02HistOps(rng *lib.Rng, kind c02StreamKind, n int, ascii bool) string {
	var sb strings.Builder
	prev := byte(0)
	for i := 0; i < n; i++ {
		var op byte
		switch r := rng.Intn(100); {
		case r < 38:
			op = 'R'
		case r < 52:
			op = 'C'
		case r < 64:
			op = 'P'
		case r < 72:
			op = 'T'
		case r < 80:
			op = 'L'
		case r < 88:
			op = 'B'
		default:
			op = 'U'
		}
		if op == 'U' && (prev != 'C' || !kind.unread) {
			op = 'C'
		}
		if op == 'B' && (prev == 'U' || !ascii) {
			// a byte can not be taken out of the middle of a multi byte character: read-byte only on ASCII texts
			op = 'R'
		}
		if !strings.ContainsRune(kind.ops, rune(op)) {
			op = 'R'
		}
		sb.WriteByte(op)
		prev = op
	}
	return sb.String()
}

type c02HistCase struct {
	cell  string
	text  []byte
	ops   string
	kind  c02StreamKind
	plan  c02Plan
	cfg   c02Cfg
	sweep bool
}

// c02HistSweepTexts / c02HistSweepOps: the seed-independent part.
var c02HistSweepTexts = []struct{ name, text string }{
	{"hist-forms", "abc (d \"e\") 12 #\\x"},
	{"hist-adjacent", "abc(d e)\"s\"x(f)|g h|'i"},
	{"hist-lines", "first line\n(second \"li\nne\") third\n\nlast"},
	{"hist-utf8", "héllo \"λ €\" #\\😀 (日本 x)\nend"},
	{"hist-space", "  a   b\t\n c  "},
	{"hist-utf8-tokens", "é1 λx(日本 ßeta)😀 \"ü\"Ω"},
	{"hist-dispatch", "#(1 2) #xff #*101 #'car `(a ,b) #2A((1 2) (3 4)) #|c|# z"},
	{"hist-incomplete", "a (b \"c"},
}

var c02HistSweepOps = []string{
	"RRRRRRRRRR", "PRPRPRPRPRPRPR", "TRTRTRTRTRTRTR", "CURCURCURCURCURCUR", "RCRCRCRCRCRCRC", "RPCRPCRPCRPC", "RLRLRLRL", "LRLRLR",
	"RBRBRBRBRB", "CCCURRRR", "RCUPRCUPRCUPRCUP", "TCURTCURTCUR", "BBBRRRR", "RRTLRR", "PPRTTRCUCUR", "RCCCCCRLLL",
}

func c02OpsLegal(ops string, kind c02StreamKind) bool {
	prev := byte(0)
	for i := 0; i < len(ops); i++ {
		if !strings.ContainsRune(kind.ops, rune(ops[i])) {
			return false
		}
		if ops[i] == 'U' && prev != 'C' {
			return false
		}
		prev = ops[i]
	}
	return true
}

// c02Histories runs the sweep and the random histories and reports disagreements with the model.
func c02Histories(c *lib.Ctx, r *c02Runner, random []*c02Case) {
	dir := c.OutDir
	var cases []c02HistCase
	def := c02MakeCfg(10, "double-float")
	cutPlans := func(n int) []c02Plan {
		return []c02Plan{{}, {Cuts: []int{n / 2}}, {Cuts: c02EveryN(n, 1), EofWith: true}, {Cuts: c02EveryN(n, 3)}}
	}
	for _, t := range c02HistSweepTexts {
		for _, ops := range c02HistSweepOps {
			for _, k := range c02StreamKinds {
				if !c02OpsLegal(ops, k) {
					continue
				}
				plans := []c02Plan{{}}
				if k.name == "input-stream/cut-reader" {
					plans = cutPlans(len(t.text))
				}
				for _, p := range plans {
					cases = append(cases, c02HistCase{cell: t.name, text: []byte(t.text), ops: ops, kind: k, plan: p, cfg: def, sweep: true})
				}
			}
		}
	}
	nSweep := len(cases)
	// random: texts of the composite generator (valid UTF-8, no NUL byte: peek-char cannot push back
	// a NUL), random operation strings, every stream kind
	for _, cs := range random {
		text := cs.T.Text
		if cs.huge || !utf8.Valid(text) || bytes.IndexByte(text, 0) >= 0 || len(text) > 400 {
			continue
		}
		if !c.Rng.Chance(c.Scale(35, 60)) {
			continue
		}
		for _, k := range c02StreamKinds {
			ops := c02HistOps(c.Rng, k, 4+c.Rng.Intn(2*cs.T.Toks+6), c02AllASCII(text))
			p := c02Plan{}
			if k.name == "input-stream/cut-reader" {
				for i := 1; i < len(text); i++ {
					if c.Rng.Intn(6) == 0 {
						p.Cuts = append(p.Cuts, i)
					}
				}
				p.EofWith = c.Rng.Bool()
			}
			cases = append(cases, c02HistCase{cell: "random", text: text, ops: ops, kind: k, plan: p, cfg: cs.Cfg})
		}
	}
	reqs := make([]string, len(cases))
	for i, hc := range cases {
		reqs[i] = fmt.Sprintf("read hist %d %s %s %s", hc.cfg.Base, hc.cfg.Fmt, c02Hex(hc.text), hc.ops)
	}
	c02Leave()
	replies := c.Model(reqs)
	nOps, nPushback, hangs := 0, 0, 0
	for i, hc := range cases {
		c02CurCell.Store(&cases[i].cell)
		want := c02Expected(replies[i])
		unsupported := false
		for k, it := range want.Objs {
			if it == "failed:unsupported" {
				unsupported = true
			}
			if strings.HasPrefix(it, "failed:") {
				want.Objs[k] = "failed"
			}
		}
		if hangs >= 3 {
			c.Ev.Count("histories_skipped_after_hangs", 1)
			continue
		}
		got := c02RunHistTimed(c, hc.kind.name, hc.text, hc.ops, hc.plan, hc.cfg, dir)
		if len(got) > 0 && got[len(got)-1] == "hang" {
			hangs++
		}
		nOps += len(got)
		if strings.Contains(hc.ops, "UR") || strings.Contains(hc.ops, "PR") || strings.Contains(hc.ops, "TR") {
			nPushback++
		}
		c.Ev.Case(fmt.Sprintf("e|%s|%s|%s|%s|%v", hc.cfg.String(), hc.kind.name, hc.text, hc.ops, hc.plan.Cuts), len(hc.ops) >= 3 && strings.Contains(hc.ops, "R") && strings.Trim(hc.ops, "R") != "")
		c.Ev.Hist("history_stream_kind", hc.kind.name)
		if unsupported {
			continue
		}
		if c02SameObjs(got, want.Objs) {
			continue
		}
		// first divergence
		k := 0
		for k < len(got) && k < len(want.Objs) && got[k] == want.Objs[k] {
			k++
		}
		at := "end"
		if k < len(hc.ops) {
			at = string(hc.ops[k])
			if k > 0 {
				at = string(hc.ops[k-1]) + at
			}
		}
		r.fail(c02Fail{entry: "history(" + hc.kind.name + ")", cell: hc.cell, aspect: "trace@" + at, text: hc.text, cfg: hc.cfg, plan: hc.plan, cutAt: -1,
			observed: "ops " + hc.ops + " → " + strings.Join(got, " "), expected: strings.Join(want.Objs, " "), from: "model:read.hist", sweep: hc.sweep, prefixLen: -1, ops: hc.ops})
	}
	c.Ev.Coverage["histories"] = len(cases)
	c.Ev.Coverage["history_sweep"] = nSweep
	c.Ev.Coverage["history_operations"] = nOps
	c.Ev.Coverage["histories_with_pushback_before_read"] = nPushback
}

func c02EveryN(n, step int) []int {
	var cuts []int
	for k := step; k < n; k += step {
		cuts = append(cuts, k)
	}
	return cuts
}
