package main

// C09 (a'): the reader behind its STREAM entry points. The whole-text sweep (c09_reader.go) never
// exercises the block logic of ReadStream / ReadStreamPush / ReadStreamEach (carry of an
// unfinished token, token start across blocks). Here every text of a fixed table is delivered
//   * in natural 64 KiB blocks, padded so that EVERY byte position of the text in turn is the
//     first byte of the second block (so each mode's first / middle / last byte, dispatch
//     characters and escapes fall on the block boundary), and
//   * through a short-read io.Reader cut at every position (two chunks), at every pair of
//     positions for short texts, and byte by byte,
// to every stream entry point: slip.ReadStream, ReadStream(one), ReadStreamPush, ReadStreamEach,
// cl:read (repeated until end of file; seekable string stream for natural blocks, plain input
// stream — byte-wise feed — otherwise), gi:read-each, gi:read-push. Long tokens spanning more
// than one block and seeded texts x seeded cuts complete it.

import (
	"fmt"
	"strconv"
	"strings"

	"verif/harness/lib"
)

// c09BlockSize: readBlockSize of code.go; replaced at run time by the value the extractor found
// (Gen/C09Reader.readBlockSize, asked from the model driver: `tot blocksize`).
var c09BlockSize = 65536

var c09StreamEntries = []string{"ReadStream", "ReadStreamOne", "ReadStreamPush", "ReadStreamEach", "cl:read-repeat", "gi:read-each", "gi:read-push"}

type c09StreamCase struct {
	entry string
	pad   int
	cuts  string
	text  string
	at    int // the byte position of the text that starts a new block / chunk (-1: several)
	table bool
}

func (sc c09StreamCase) request() c09Case {
	return c09Case{"T", sc.entry + "\x00" + strconv.Itoa(sc.pad) + "\x00" + sc.cuts + "\x00" + sc.text}
}

func c09ByteClass(b byte) string {
	switch {
	case b == '#':
		return "sharp"
	case b == '\\':
		return "backslash"
	case b == '"':
		return "dquote"
	case b == '|':
		return "pipe"
	case b == '(' || b == ')':
		return "paren"
	case b == ' ' || b == '\n' || b == '\t' || b == '\r':
		return "space"
	case '0' <= b && b <= '9':
		return "digit"
	case 'a' <= b && b <= 'z' || 'A' <= b && b <= 'Z':
		return "letter"
	case b >= 0x80:
		return "high"
	case b == '\'' || b == '`' || b == ',' || b == '@':
		return "quote"
	case b == ';':
		return "semicolon"
	}
	return "other"
}

// sig: entry point + construct of the text + classes of the bytes on both sides of the boundary
func (sc c09StreamCase) sig(kind string) string {
	at := "several"
	if sc.at >= 0 {
		before, after := "start", "end"
		if sc.at > 0 && sc.at <= len(sc.text) {
			before = c09ByteClass(sc.text[sc.at-1])
		}
		if sc.at < len(sc.text) {
			after = c09ByteClass(sc.text[sc.at])
		}
		at = before + "|" + after
	}
	how := "blocks"
	if sc.cuts != "" {
		how = "short-reads"
	}
	return fmt.Sprintf("reader-stream entry=%s delivery=%s construct=%s at=%s kind=%s", sc.entry, how, c09ReaderConstruct(sc.text), at, kind)
}

// c09StreamTexts: the texts of the table: every token alone and in two contexts.
func c09StreamTexts(thorough bool) []string {
	seen := map[string]bool{}
	var out []string
	add := func(s string) {
		if len(s) > 0 && len(s) <= 48 && !seen[s] {
			seen[s] = true
			out = append(out, s)
		}
	}
	ctx := []string{"%s", "(%s)", "(a %s b)"}
	if thorough {
		ctx = append(ctx, "%s %s", "'%s", "#(%s)", "`(a ,%s)", "(a . %s)", "%s;c\n%s", "\"%s\"", "#|%s|#")
	}
	for _, t := range c09Tokens {
		for _, cx := range ctx {
			add(strings.ReplaceAll(cx, "%s", t))
		}
	}
	return out
}

func c09StreamTable(thorough bool) []c09StreamCase {
	var out []c09StreamCase
	for ti, text := range c09StreamTexts(thorough) {
		// natural blocks: position p of the text is the first byte of the second block
		for p := 0; p <= len(text); p++ {
			for ei, e := range c09StreamEntries {
				// quick tier: the four Go entry points share reader.read, the Lisp ones sit on top of
				// them: every (text, position) goes to two entry points in rotation, thorough to all
				if !thorough && (ti+p+ei)%4 >= 2 && ei < 4 {
					continue
				}
				if !thorough && ei >= 4 && (ti+p+ei)%3 != 0 {
					continue
				}
				out = append(out, c09StreamCase{entry: e, pad: c09BlockSize - p, text: text, at: p, table: true})
			}
		}
		// short reads: one cut at every position; byte by byte; (short texts) every pair of cuts
		for ei, e := range c09StreamEntries {
			for p := 1; p < len(text); p++ {
				if !thorough && (ti+p+ei)%2 == 1 {
					continue
				}
				out = append(out, c09StreamCase{entry: e, cuts: strconv.Itoa(p), text: text, at: p, table: true})
			}
			out = append(out, c09StreamCase{entry: e, cuts: "*1", text: text, at: -1, table: true})
			if len(text) <= 8 && (thorough || ei < 2) {
				for p := 1; p < len(text); p++ {
					for q := 1; p+q < len(text); q++ {
						out = append(out, c09StreamCase{entry: e, cuts: fmt.Sprintf("%d,%d", p, q), text: text, at: -1, table: true})
					}
				}
			}
		}
	}
	// tokens longer than a block (the carry is appended more than once), ending at various offsets
	for _, n := range []int{c09BlockSize - 3, c09BlockSize, c09BlockSize + 5, 2*c09BlockSize + 1} {
		for _, mk := range []func(int) string{
			func(n int) string { return strings.Repeat("a", n) },
			func(n int) string { return "\"" + strings.Repeat("a", n) + "\"" },
			func(n int) string { return "\"" + strings.Repeat("\\n", n/2) + "\"" },
			func(n int) string { return "|" + strings.Repeat("a", n) + "|" },
			func(n int) string { return ";" + strings.Repeat("a", n) + "\n1" },
			func(n int) string { return "#|" + strings.Repeat("a", n) + "|#1" },
			func(n int) string { return "#*" + strings.Repeat("1", n) + " " },
			func(n int) string { return strings.Repeat("9", n) },
			func(n int) string { return "#x" + strings.Repeat("f", n) },
			func(n int) string { return "#\\" + strings.Repeat("a", n) },
			func(n int) string { return "(" + strings.Repeat("a ", n/2) + ")" },
		} {
			for _, e := range c09StreamEntries {
				out = append(out, c09StreamCase{entry: e, text: mk(n), at: -1, table: true})
			}
		}
	}
	return out
}

// c09StreamSeeded: seeded texts x seeded alignment / cuts x seeded entry point.
func c09StreamSeeded(rng *lib.Rng, n int, avoid []c09Construct) []c09StreamCase {
	texts := c09ReaderSeeded(rng, n, avoid)
	out := make([]c09StreamCase, 0, n)
	for _, t := range texts {
		if len(t) == 0 || len(t) > 4096 {
			continue
		}
		sc := c09StreamCase{entry: c09StreamEntries[rng.Intn(len(c09StreamEntries))], text: t, at: -1}
		switch rng.Intn(3) {
		case 0:
			sc.at = rng.Intn(len(t) + 1)
			sc.pad = c09BlockSize - sc.at
		case 1:
			var cuts []string
			for left := len(t); left > 0; {
				c := 1 + rng.Intn(6)
				cuts = append(cuts, strconv.Itoa(c))
				left -= c
			}
			sc.cuts = strings.Join(cuts, ",")
		default:
			sc.at = 1 + rng.Intn(len(t))
			sc.cuts = strconv.Itoa(sc.at)
		}
		out = append(out, sc)
	}
	return out
}
