package main

// C17 — channels, mutexes and synchronized objects hold up under concurrency (exploration leg).
//
// Programs in the supported concurrent shape are generated from the seed, rendered to slip source
// and evaluated by slip in WORKER SUBPROCESSES (this binary re-executed as `vh c17worker`; a Go
// fatal error such as "concurrent map writes" kills a worker, which is a violation signature, not a
// harness crash) under GOMAXPROCS in {1,2,4,16}. A trace primitive registered through slip.Define
// (`vtrace`, appends under its own Go mutex) records what each routine observed: items received,
// values read inside critical sections, enter/exit of sections, final counters. The recorded
// histories are fed to the proved checkers of the Lean model (`conc fifo|mutex|counter`), the same
// program is run by the model under a seeded random schedule (`conc run`) and the
// schedule-independent part of the final state is compared; routines that only touch interpreter
// tables (defvar/defun/defmethod/defflavor/defclass/printing) are compared with a sequential run
// of the same routine bodies. In the thorough tier the worker is also built with -race and race
// reports naming slip frames are violations.

import (
	"bytes"
	"context"
	"encoding/json"
	"fmt"
	"os"
	"os/exec"
	"path/filepath"
	"regexp"
	"runtime"
	"sort"
	"strconv"
	"strings"
	"sync"
	"sync/atomic"
	"time"

	"github.com/ohler55/slip"
	"verif/harness/lib"
)

func init() {
	props["C17"] = runC17
	// worker mode: `vh c17worker` (job on stdin, result on stdout). Dispatched here, before main's
	// flag handling, so that no shared file needs to know about it.
	if len(os.Args) > 1 && os.Args[1] == "c17worker" {
		c17WorkerMain()
		os.Exit(0)
	}
}

// ---------------------------------------------------------------------------------------------
// worker

type c17Job struct {
	Program string `json:"program"`
	StallS  int    `json:"stall_s"` // no new trace entry and not finished for this long = hang
	YieldSd uint64 `json:"yield_seed"`
}

type c17Ev struct {
	T string  `json:"t"`
	A []int64 `json:"a,omitempty"`
	S string  `json:"s,omitempty"`
}

type c17Result struct {
	Ok     bool    `json:"ok"`
	Class  string  `json:"class,omitempty"`
	Msg    string  `json:"msg,omitempty"`
	Hang   bool    `json:"hang,omitempty"`
	Stacks string  `json:"stacks,omitempty"`
	Trace  []c17Ev `json:"trace"`
}

var (
	c17TraceMu  sync.Mutex
	c17Trace    []c17Ev
	c17YieldMu  sync.Mutex
	c17YieldRng *lib.Rng
)

type c17TraceFn struct{ slip.Function }

// Call records (vtrace tag a b ...): fixnum arguments as numbers, anything else printed.
func (f *c17TraceFn) Call(s *slip.Scope, args slip.List, depth int) slip.Object {
	ev := c17Ev{}
	if 0 < len(args) {
		if sym, ok := args[0].(slip.Symbol); ok {
			ev.T = strings.ToLower(string(sym))
		}
	}
	for _, a := range args[min(1, len(args)):] {
		switch ta := a.(type) {
		case slip.Fixnum:
			ev.A = append(ev.A, int64(ta))
		case slip.String:
			ev.S += string(ta)
		default:
			// printed outside the trace lock: the printer is part of what is under test
			ev.S += "<" + slip.ObjectString(a) + ">"
			ev.A = append(ev.A, -1)
		}
	}
	c17TraceMu.Lock()
	c17Trace = append(c17Trace, ev)
	c17TraceMu.Unlock()
	return nil
}

type c17YieldFn struct{ slip.Function }

// Call perturbs the schedule: (vyield) gives up the processor or sleeps a few microseconds.
func (f *c17YieldFn) Call(s *slip.Scope, args slip.List, depth int) slip.Object {
	c17YieldMu.Lock()
	r := c17YieldRng.Intn(8)
	c17YieldMu.Unlock()
	switch {
	case r < 5:
		runtime.Gosched()
	case r < 7:
		time.Sleep(time.Duration(1+r) * time.Microsecond)
	default:
		time.Sleep(200 * time.Microsecond)
	}
	return nil
}

func c17WorkerMain() {
	var job c17Job
	if err := json.NewDecoder(os.Stdin).Decode(&job); err != nil {
		fmt.Fprintln(os.Stderr, "c17worker: bad job:", err)
		os.Exit(3)
	}
	c17YieldRng = lib.NewRng(job.YieldSd)
	slip.Define(func(args slip.List) slip.Object {
		f := c17TraceFn{Function: slip.Function{Name: "vtrace", Args: args}}
		f.Self = &f
		return &f
	}, &slip.FuncDoc{Name: "vtrace", Args: []*slip.DocArg{{Name: "&rest"}, {Name: "args", Type: "object"}}, Text: "verification trace"}, &slip.UserPkg)
	slip.Define(func(args slip.List) slip.Object {
		f := c17YieldFn{Function: slip.Function{Name: "vyield", Args: args}}
		f.Self = &f
		return &f
	}, &slip.FuncDoc{Name: "vyield", Args: []*slip.DocArg{}, Text: "verification yield"}, &slip.UserPkg)

	done := make(chan lib.Outcome, 1)
	go func() {
		scope := slip.NewScope()
		done <- lib.EvalString(scope, job.Program)
	}()
	res := c17Result{}
	stall := time.Duration(job.StallS) * time.Second
	last, lastLen := time.Now(), 0
	tick := time.NewTicker(100 * time.Millisecond)
	defer tick.Stop()
loop:
	for {
		select {
		case o := <-done:
			res.Ok, res.Class, res.Msg = o.Ok, o.Class, o.Msg
			break loop
		case <-tick.C:
			c17TraceMu.Lock()
			n := len(c17Trace)
			c17TraceMu.Unlock()
			if n != lastLen {
				last, lastLen = time.Now(), n
			} else if 0 < job.StallS && stall < time.Since(last) {
				// no trace entry for a while: a hang only if every routine and the program's main
				// thread are blocked (an untraced loop that is still running is progress)
				buf := make([]byte, 4<<20)
				stacks := string(buf[:runtime.Stack(buf, true)])
				if c17AllBlocked(stacks) {
					// confirm: a deadlock is a state, not a time measurement. Two seconds later the
					// trace must still be unchanged and every routine still blocked (a goroutine
					// waiting in a select with a timer that is about to fire is not a deadlock)
					time.Sleep(2 * time.Second)
					c17TraceMu.Lock()
					n2 := len(c17Trace)
					c17TraceMu.Unlock()
					stacks2 := string(buf[:runtime.Stack(buf, true)])
					if n2 == n && c17AllBlocked(stacks2) {
						select {
						case o := <-done:
							res.Ok, res.Class, res.Msg = o.Ok, o.Class, o.Msg
						default:
							res.Hang = true
							res.Stacks = stacks2
						}
						break loop
					}
				}
				last = time.Now()
			}
		}
	}
	c17TraceMu.Lock()
	res.Trace = append([]c17Ev{}, c17Trace...)
	c17TraceMu.Unlock()
	out, _ := json.Marshal(res)
	_, _ = os.Stdout.Write(out)
}

var c17GoroutineRe = regexp.MustCompile(`(?m)^goroutine \d+ \[([^\],]+)`)

// c17AllBlocked: every goroutine evaluating slip code for the program (routines started by run and
// the program's main thread) is waiting for a lock or a channel.
func c17AllBlocked(stacks string) bool {
	seen := false
	for _, g := range strings.Split(stacks, "\n\n") {
		if !strings.Contains(g, "(*Run).Call.func1") && !strings.Contains(g, "c17WorkerMain.func") {
			continue
		}
		m := c17GoroutineRe.FindStringSubmatch(g)
		if m == nil {
			continue
		}
		seen = true
		switch state := m[1]; {
		case strings.HasPrefix(state, "chan receive"), strings.HasPrefix(state, "chan send"),
			strings.HasPrefix(state, "sync.Mutex.Lock"), strings.HasPrefix(state, "semacquire"),
			strings.HasPrefix(state, "sync.RWMutex"), strings.HasPrefix(state, "sync.Cond.Wait"),
			strings.HasPrefix(state, "sync.WaitGroup.Wait"), strings.HasPrefix(state, "select"):
		default:
			return false
		}
	}
	return seen
}

// ---------------------------------------------------------------------------------------------
// program representation (mirrors SlipVerif.Conc.Stmt)

type c17Stmt struct {
	Kind string    `json:"k"` // push pop incr lock handler fail repeat yield burst sel sync rangeall close
	Ch   int       `json:"ch,omitempty"`
	V    int       `json:"v,omitempty"`
	K    int       `json:"c,omitempty"`
	M    int       `json:"m,omitempty"`
	N    int       `json:"n,omitempty"`
	Ret  bool      `json:"ret,omitempty"`  // lock: leave the section through (return-from)
	Chs  []int     `json:"chs,omitempty"`  // sel: the channels of the select, in clause order
	Tpos []int     `json:"tpos,omitempty"` // sel: clause positions (0 = first) of time-channel clauses
	Shrt bool      `json:"shrt,omitempty"` // sel: the time channels fire (1 ms): the select is retried
	Tick bool      `json:"tick,omitempty"` // sel (with Shrt): the time clauses use one time-ticker shared by all routines
	Val  string    `json:"val,omitempty"`  // push: kind of the pushed object: "" fixnum, str, list, sym, nil, t, elist
	Body []c17Stmt `json:"b,omitempty"`
}

type c17Prog struct {
	Family   string             `json:"family"`
	Shape    string             `json:"shape"`
	Caps     []int              `json:"caps"`     // channel capacities
	Kinds    []string           `json:"kinds"`    // counter storage kinds: global fslot cslot hash let
	Guards   []int              `json:"guards"`   // counter -> mutex
	NMutex   int                `json:"nmutex"`   //
	Routines [][]c17Stmt        `json:"routines"` // started with (run ...)
	Main     []c17Stmt          `json:"main"`     // executed by the main thread itself (thread id = len(Routines))
	Spawn    string             `json:"spawn"`    // how routines are started: "" nested method clos defun closure
	NoModel  bool               `json:"nomodel"`  // the shape has no model run (channel-close / range)
	Defens   bool               `json:"defens"`   // bursts re-enable synchronization of the instance on every iteration
	Burst    bool               `json:"burst"`    // sweep cell: untraced bursts of guarded increments (no model run, no read log)
	Shared   bool               `json:"shared"`   // sweep cell: all routines are started from one (run ...) form in a loop
	Defun    bool               `json:"defun"`    // sweep cell: routines call one shared defun (first call concurrent)
	Tables   [][]string         `json:"tables"`   // family tables: per routine the value forms (each traced)
	Loose    map[string][]int64 `json:"loose"`    // tables: "r-i" -> allowed values of a form whose value depends on the schedule
	Finals   []string           `json:"finals"`   // tables: forms evaluated by the main thread after all routines finished
	Prelude  string             `json:"prelude"`  // family tables: definitions shared by the routines
}

// expand unrolls repeat nodes (push values inside a repeat are V + iteration) and drops yields.
func c17Expand(ss []c17Stmt) []c17Stmt {
	var out []c17Stmt
	for _, s := range ss {
		switch s.Kind {
		case "yield", "sync":
		case "burst":
			// N untraced guarded increments of counter K
			for i := 0; i < s.N; i++ {
				out = append(out, c17Stmt{Kind: "incr", K: s.K})
			}
		case "repeat":
			for i := 0; i < s.N; i++ {
				for _, b := range c17Expand(s.Body) {
					out = append(out, c17Shift(b, i))
				}
			}
		case "lock", "handler":
			c := s
			c.Body = c17Expand(s.Body)
			out = append(out, c)
		default:
			out = append(out, s)
		}
	}
	return out
}

func c17Shift(s c17Stmt, i int) c17Stmt {
	c := s
	if s.Kind == "push" {
		c.V = s.V + i
		c.Ret = true // marks a push that sits in a loop (its object is computed, see c17ItemExpr)
	}
	if len(s.Body) > 0 {
		c.Body = make([]c17Stmt, len(s.Body))
		for j, b := range s.Body {
			c.Body[j] = c17Shift(b, i)
		}
	}
	return c
}

// model tokens of an expanded statement list
func c17Tokens(ss []c17Stmt) []string {
	var out []string
	for _, s := range ss {
		switch s.Kind {
		case "push":
			out = append(out, fmt.Sprintf("P%d.%d", s.Ch, s.V))
		case "pop":
			out = append(out, fmt.Sprintf("O%d", s.Ch))
		case "sel":
			cs := make([]string, len(s.Chs))
			for i, c := range s.Chs {
				cs[i] = strconv.Itoa(c)
			}
			out = append(out, "S"+strings.Join(cs, "+"))
		case "incr":
			out = append(out, fmt.Sprintf("I%d", s.K))
		case "fail":
			out = append(out, "F")
		case "lock":
			out = append(out, fmt.Sprintf("L%d", s.M))
			out = append(out, c17Tokens(s.Body)...)
			out = append(out, "E")
		case "handler":
			out = append(out, "H")
			out = append(out, c17Tokens(s.Body)...)
			out = append(out, "E")
		}
	}
	return out
}

func (p *c17Prog) threads() [][]c17Stmt {
	ts := append([][]c17Stmt{}, p.Routines...)
	if len(p.Main) > 0 {
		ts = append(ts, p.Main)
	}
	return ts
}

// executed pushes/pops/incrs of an expanded list, honouring error exits (fail skips the rest up
// to the nearest handler). Returns failed=true when the list ends by an error exit.
func c17Walk(ss []c17Stmt, visit func(s c17Stmt)) (failed bool) {
	for _, s := range ss {
		switch s.Kind {
		case "fail":
			return true
		case "lock":
			visit(s)
			if c17Walk(s.Body, visit) {
				return true
			}
		case "handler":
			_ = c17Walk(s.Body, visit)
		default:
			visit(s)
		}
	}
	return false
}

func (p *c17Prog) modelRequest(seed uint64) string {
	var parts []string
	for _, t := range p.threads() {
		ex := c17Expand(t)
		if p.Family == "sync" {
			// single-writer counters: in the model every counter has a private mutex
			for i, s := range ex {
				if s.Kind == "incr" {
					ex[i] = c17Lock(p.Guards[s.K], s)
				}
			}
		}
		parts = append(parts, strings.Join(c17Tokens(ex), " "))
	}
	return fmt.Sprintf("conc run %d %d %s %s %d %d %s", seed%1000000007, 4000000, c17Join(p.Caps), c17Join(p.Guards),
		len(p.Caps), len(p.Kinds), strings.Join(parts, " | "))
}

func c17Join(xs []int) string {
	if len(xs) == 0 {
		return "-"
	}
	s := make([]string, len(xs))
	for i, x := range xs {
		s[i] = strconv.Itoa(x)
	}
	return strings.Join(s, ",")
}

// ---------------------------------------------------------------------------------------------
// rendering to slip source

func (p *c17Prog) readExpr(k int) string {
	switch p.Kinds[k] {
	case "global":
		return fmt.Sprintf("*c%d*", k)
	case "fslot":
		return fmt.Sprintf("(send *fo* :c%d)", k)
	case "cslot":
		return fmt.Sprintf("(slot-value *co* 'c%d)", k)
	case "hash":
		return fmt.Sprintf("(gethash 'c%d *ht*)", k)
	case "ivar":
		// instance variable of the flavor instance whose methods start the routines
		return fmt.Sprintf("c%d", k)
	default: // let, wfslot / wcslot (slot of *fo* / *co* reached through a with-slots variable)
		return fmt.Sprintf("c%d", k)
	}
}

// the instance whose slot holds counter k (only for fslot / cslot counters)
func (p *c17Prog) instanceOf(k int) string {
	if p.Kinds[k] == "cslot" || p.Kinds[k] == "wcslot" {
		return "*co*"
	}
	return "*fo*"
}

func (p *c17Prog) writeExpr(k int, x string) string {
	switch p.Kinds[k] {
	case "global":
		return fmt.Sprintf("(setq *c%d* %s)", k, x)
	case "fslot":
		return fmt.Sprintf("(send *fo* :set-c%d %s)", k, x)
	case "cslot":
		return fmt.Sprintf("(setf (slot-value *co* 'c%d) %s)", k, x)
	case "hash":
		return fmt.Sprintf("(setf (gethash 'c%d *ht*) %s)", k, x)
	default:
		return fmt.Sprintf("(setq c%d %s)", k, x)
	}
}

// c17ItemExpr is the slip expression of the object a push sends. Item number V (+ loop index)
// identifies it; nil, t and () carry no number (they are identified by their position in the
// producer's sequence, see c17CheckRun).
func c17ItemExpr(s c17Stmt, loopVar string) string {
	num := strconv.Itoa(s.V)
	if loopVar != "" {
		num = fmt.Sprintf("(+ %d %s)", s.V, loopVar)
	}
	switch s.Val {
	case "str":
		if loopVar == "" {
			return fmt.Sprintf("\"s%d\"", s.V)
		}
		return fmt.Sprintf("(format nil \"s~D\" %s)", num)
	case "list":
		return fmt.Sprintf("(list %s 'x)", num)
	case "sym":
		if loopVar == "" {
			return fmt.Sprintf("'y%d", s.V)
		}
		return fmt.Sprintf("(list %s 'x)", num)
	case "nil":
		return "nil"
	case "elist":
		return "'()"
	case "t":
		return "t"
	}
	return num
}

// the kind an item of the given push kind is received as (sym pushed from a loop is a list; () is nil)
func c17RecvKind(val string, inLoop bool) string {
	switch val {
	case "sym":
		if inLoop {
			return "list"
		}
	case "elist":
		return "nil"
	}
	return val
}

var (
	c17StrItemRe  = regexp.MustCompile(`^s(\d+)$`)
	c17ListItemRe = regexp.MustCompile(`^<\((\d+) x\)>$`)
	c17SymItemRe  = regexp.MustCompile(`^<y(\d+)>$`)
)

// c17DecodeItem: the number and kind of a received object as vtrace recorded it
func c17DecodeItem(e c17Ev) (num int64, kind string, ok bool) {
	if len(e.A) >= 3 && e.A[2] >= 0 && e.S == "" {
		return e.A[2], "", true
	}
	if m := c17StrItemRe.FindStringSubmatch(e.S); m != nil && len(e.A) == 2 {
		n, _ := strconv.ParseInt(m[1], 10, 64)
		return n, "str", true
	}
	if m := c17ListItemRe.FindStringSubmatch(e.S); m != nil {
		n, _ := strconv.ParseInt(m[1], 10, 64)
		return n, "list", true
	}
	if m := c17SymItemRe.FindStringSubmatch(e.S); m != nil {
		n, _ := strconv.ParseInt(m[1], 10, 64)
		return n, "sym", true
	}
	switch e.S {
	case "<nil>":
		return -1, "nil", true
	case "<t>":
		return -1, "t", true
	}
	return -1, "", false
}

// render statements of routine r; held = mutexes entered since the nearest handler (innermost
// last), needed to log the exits before an error leaves the sections.
func (p *c17Prog) render(b *strings.Builder, r int, ss []c17Stmt, held []int, loopVar string, depth int) {
	for _, s := range ss {
		switch s.Kind {
		case "push":
			fmt.Fprintf(b, " (channel-push *ch%d* %s)", s.Ch, c17ItemExpr(s, loopVar))
		case "pop":
			fmt.Fprintf(b, " (vtrace 'rv %d %d (channel-pop *ch%d*))", r, s.Ch, s.Ch)
		case "incr":
			// an increment outside every section (family sync) is an operation of its own: its
			// invocation and response are recorded around it (see Model/Lin.lean)
			if len(held) == 0 {
				fmt.Fprintf(b, " (vtrace 'iv %d %d)", r, s.K)
			}
			fmt.Fprintf(b, " (let ((v %s)) (vtrace 'rd %d %d v) (vyield) %s)", p.readExpr(s.K), r, s.K, p.writeExpr(s.K, "(1+ v)"))
			if len(held) == 0 {
				fmt.Fprintf(b, " (vtrace 'rs %d %d)", r, s.K)
			}
		case "yield":
			b.WriteString(" (vyield)")
		case "sync":
			// defensive (re-)enabling of the synchronized mode of the instance holding counter K
			fmt.Fprintf(b, " (set-synchronized %s t)", p.instanceOf(s.K))
		case "close":
			fmt.Fprintf(b, " (channel-close *ch%d*)", s.Ch)
		case "rangeall":
			// N = 0: the callback only records the item; 1: it also gives up the processor (other
			// consumers of the channel run between two items); 2: worker of a pool, it passes the item
			// on to channel Chs[0] (and blocks there while that channel is full)
			extra := ""
			if s.N >= 1 {
				extra = " (vyield)"
			}
			if s.N == 2 {
				extra += fmt.Sprintf(" (channel-push *ch%d* v)", s.Chs[0])
			}
			fmt.Fprintf(b, " (range (lambda (v) (vtrace 'rv %d %d v)%s) *ch%d*)", r, s.Ch, extra, s.Ch)
		case "sel":
			// one receive through select; clause order: channel clauses in Chs order with the
			// time-channel clauses at the positions Tpos
			var clauses []string
			ci, ti := 0, 0
			for pos := 0; pos < len(s.Chs)+len(s.Tpos); pos++ {
				isT := false
				for _, tp := range s.Tpos {
					if tp == pos {
						isT = true
					}
				}
				if isT || ci >= len(s.Chs) {
					if s.Shrt && s.Tick {
						// the environment keeps sending on this channel (a tick goes to one of the
						// routines selecting on it, or is dropped)
						clauses = append(clauses, fmt.Sprintf("(*tk* tv (vtrace 'to %d))", r))
					} else if s.Shrt {
						clauses = append(clauses, fmt.Sprintf("((time-after 0.001) tv (vtrace 'to %d))", r))
					} else {
						clauses = append(clauses, fmt.Sprintf("(*to%d* tv (vtrace 'to %d))", ti%4, r))
					}
					ti++
					continue
				}
				got := ""
				if s.Shrt {
					got = " (setq g 1)"
				}
				clauses = append(clauses, fmt.Sprintf("(*ch%d* v (vtrace 'rv %d %d v)%s)", s.Chs[ci], r, s.Chs[ci], got))
				ci++
			}
			if s.Shrt {
				// (a bare symbol as the end test of do never ends in slip: compare explicitly)
				fmt.Fprintf(b, " (let ((g 0)) (do () ((> g 0)) (select %s)))", strings.Join(clauses, " "))
			} else {
				fmt.Fprintf(b, " (select %s)", strings.Join(clauses, " "))
			}
		case "burst":
			def := ""
			if p.Defens && (p.Kinds[s.K] == "fslot" || p.Kinds[s.K] == "cslot") {
				def = fmt.Sprintf(" (set-synchronized %s t)", p.instanceOf(s.K))
			}
			if p.Family == "sync" {
				// single writer: no mutex
				fmt.Fprintf(b, " (dotimes (i%d %d)%s %s)", depth, s.N, def, p.writeExpr(s.K, "(1+ "+p.readExpr(s.K)+")"))
			} else {
				fmt.Fprintf(b, " (dotimes (i%d %d)%s (with-mutex-lock *m%d* %s))", depth, s.N, def, p.Guards[s.K], p.writeExpr(s.K, "(1+ "+p.readExpr(s.K)+")"))
			}
		case "fail":
			for i := len(held) - 1; i >= 0; i-- {
				fmt.Fprintf(b, " (vtrace 'ex %d %d)", r, held[i])
			}
			b.WriteString(" (error \"c17 exit\")")
		case "handler":
			b.WriteString(" (ignore-errors")
			p.render(b, r, s.Body, nil, loopVar, depth)
			b.WriteString(")")
		case "lock":
			// an outermost section is the operation on the counters it increments: invoked before the
			// lock is requested, responded when the routine is past the form (not recorded when the
			// section is left by an error: the operation stays pending)
			var opK []int
			if len(held) == 0 {
				seen := map[int]bool{}
				c17Walk(c17Expand(s.Body), func(x c17Stmt) {
					if x.Kind == "incr" && !seen[x.K] {
						seen[x.K] = true
						opK = append(opK, x.K)
					}
				})
				for _, k := range opK {
					fmt.Fprintf(b, " (vtrace 'iv %d %d)", r, k)
				}
			}
			if s.Ret {
				fmt.Fprintf(b, " (block c17b%d", depth)
			}
			fmt.Fprintf(b, " (with-mutex-lock *m%d* (vtrace 'en %d %d)", s.M, r, s.M)
			p.render(b, r, s.Body, append(append([]int{}, held...), s.M), loopVar, depth+1)
			if !c17EndsFailed(s.Body) {
				fmt.Fprintf(b, " (vtrace 'ex %d %d)", r, s.M)
				if s.Ret {
					fmt.Fprintf(b, " (return-from c17b%d nil)", depth)
				}
			}
			b.WriteString(")")
			if s.Ret {
				b.WriteString(")")
			}
			if !c17EndsFailed(s.Body) {
				for _, k := range opK {
					fmt.Fprintf(b, " (vtrace 'rs %d %d)", r, k)
				}
			}
		case "repeat":
			v := fmt.Sprintf("i%d", depth)
			fmt.Fprintf(b, " (dotimes (%s %d)", v, s.N)
			p.render(b, r, s.Body, held, v, depth+1)
			b.WriteString(")")
		}
	}
}

func c17EndsFailed(ss []c17Stmt) bool {
	return c17Walk(c17Expand(ss), func(c17Stmt) {})
}

func (p *c17Prog) usesLongTimers() bool {
	return p.anyStmt(func(s c17Stmt) bool { return s.Kind == "sel" && len(s.Tpos) > 0 && !s.Shrt })
}

func (p *c17Prog) usesTicker() bool {
	return p.anyStmt(func(s c17Stmt) bool { return s.Kind == "sel" && len(s.Tpos) > 0 && s.Shrt && s.Tick })
}

func (p *c17Prog) anyStmt(pred func(c17Stmt) bool) bool {
	found := false
	var walk func(ss []c17Stmt)
	walk = func(ss []c17Stmt) {
		for _, s := range ss {
			if pred(s) {
				found = true
			}
			walk(s.Body)
		}
	}
	for _, t := range p.threads() {
		walk(t)
	}
	return found
}

// source renders the whole program. sequential=true replaces (run X) by X (tables family only).
func (p *c17Prog) source(sequential bool) string {
	var b strings.Builder
	n := len(p.Routines)
	if p.Family == "tables" {
		n = len(p.Tables)
	}
	fmt.Fprintf(&b, "(defvar *done* (make-channel %d))\n", n+2)
	for i, c := range p.Caps {
		fmt.Fprintf(&b, "(defvar *ch%d* (make-channel %d))\n", i, c)
	}
	for i := 0; i < p.NMutex; i++ {
		fmt.Fprintf(&b, "(defvar *m%d* (make-mutex))\n", i)
	}
	if p.usesLongTimers() {
		// time channels that never fire during a run
		b.WriteString("(defvar *to0* (time-after 3600))\n(defvar *to1* (time-after 7200))\n(defvar *to2* (time-after 5400))\n(defvar *to3* (time-after 9000))\n")
	}
	if p.usesTicker() {
		b.WriteString("(defvar *tk* (time-ticker 0.001))\n")
	}
	var fs, cs, ls, wfs, wcs []string
	hash := false
	for k, kind := range p.Kinds {
		switch kind {
		case "global":
			fmt.Fprintf(&b, "(defvar *c%d* 0)\n", k)
		case "fslot", "wfslot":
			fs = append(fs, fmt.Sprintf("(c%d 0)", k))
			if kind == "wfslot" {
				wfs = append(wfs, fmt.Sprintf("c%d", k))
			}
		case "cslot", "wcslot":
			cs = append(cs, fmt.Sprintf("(c%d :initform 0)", k))
			if kind == "wcslot" {
				wcs = append(wcs, fmt.Sprintf("c%d", k))
			}
		case "hash":
			hash = true
		case "let":
			ls = append(ls, fmt.Sprintf("(c%d 0)", k))
		}
	}
	if len(fs) > 0 {
		fmt.Fprintf(&b, "(defflavor c17box (%s) () :gettable-instance-variables :settable-instance-variables)\n(defvar *fo* (make-instance 'c17box))\n(set-synchronized *fo* t)\n", strings.Join(fs, " "))
	}
	if len(cs) > 0 {
		fmt.Fprintf(&b, "(defclass c17pt () (%s))\n(defvar *co* (make-instance 'c17pt))\n(set-synchronized *co* t)\n", strings.Join(cs, " "))
	}
	if hash {
		b.WriteString("(defvar *ht* (make-hash-table))\n")
		for k, kind := range p.Kinds {
			if kind == "hash" {
				fmt.Fprintf(&b, "(setf (gethash 'c%d *ht*) 0)\n", k)
			}
		}
	}
	b.WriteString(p.Prelude)
	switch p.Spawn {
	case "method":
		var iv []string
		for k, kind := range p.Kinds {
			if kind == "ivar" {
				iv = append(iv, fmt.Sprintf("(c%d 0)", k))
			}
		}
		fmt.Fprintf(&b, "(defflavor c17sp (%s) () :gettable-instance-variables)\n(defvar *sp* (make-instance 'c17sp))\n", strings.Join(iv, " "))
	case "clos":
		b.WriteString("(defclass c17spc () ())\n(defvar *spc* (make-instance 'c17spc))\n")
	}
	if p.Family == "tables" {
		for r, forms := range p.Tables {
			var body strings.Builder
			for i, f := range forms {
				tag := "val"
				if _, loose := p.Loose[fmt.Sprintf("%d-%d", r, i)]; loose {
					tag = "lv" // not compared with the sequential run: checked against its allowed set
				}
				fmt.Fprintf(&body, " (vtrace '%s %d %d %s)", tag, r, i, f)
			}
			if sequential {
				fmt.Fprintf(&b, "(progn%s (channel-push *done* %d))\n", body.String(), r)
			} else {
				fmt.Fprintf(&b, "(run (progn%s (channel-push *done* %d)))\n", body.String(), r)
			}
		}
		fmt.Fprintf(&b, "(dotimes (i %d) (channel-pop *done*))\n", n)
		for i, f := range p.Finals {
			fmt.Fprintf(&b, "(vtrace 'val 99 %d %s)\n", i, f)
		}
		return b.String()
	}
	// the part that may sit inside a let (let-bound counters)
	var body strings.Builder
	switch {
	case p.Shared:
		// one (run ...) form evaluated once per routine: all routines execute routine 0's code
		body.WriteString("(dotimes (r " + strconv.Itoa(n) + ") (run (progn")
		p.render(&body, 0, p.Routines[0], nil, "", 0)
		body.WriteString(" (channel-push *done* 0))))\n")
	case p.Defun:
		b.WriteString("(defun c17work ()")
		p.render(&b, 0, p.Routines[0], nil, "", 0)
		b.WriteString(" (channel-push *done* 0))\n")
		for r := 0; r < n; r++ {
			fmt.Fprintf(&body, "(run (c17work)) ; %d\n", r)
		}
	default:
		for r, ss := range p.Routines {
			var rb strings.Builder
			rb.WriteString("(run (progn")
			p.render(&rb, r, ss, nil, "", 0)
			fmt.Fprintf(&rb, " (channel-push *done* %d)))", r)
			// how the (run ...) form is reached: the scope run is called in differs (number of
			// parents, distance to the scope holding the let variables)
			switch p.Spawn {
			case "nested":
				fmt.Fprintf(&body, "(let ((pad%d %d)) (dotimes (q%d 1) (let ((pad2 q%d)) %s)))\n", r, r, r, r, rb.String())
			case "method":
				fmt.Fprintf(&b, "(defmethod (c17sp :go%d) () %s)\n", r, rb.String())
				fmt.Fprintf(&body, "(send *sp* :go%d)\n", r)
			case "clos":
				fmt.Fprintf(&b, "(defmethod c17go%d ((o c17spc)) %s)\n", r, rb.String())
				fmt.Fprintf(&body, "(c17go%d *spc*)\n", r)
			case "defun":
				fmt.Fprintf(&b, "(defun c17go%d () %s)\n", r, rb.String())
				fmt.Fprintf(&body, "(c17go%d)\n", r)
			case "closure":
				fmt.Fprintf(&body, "(lambda () %s)\n", rb.String())
			default:
				body.WriteString(rb.String() + "\n")
			}
		}
	}
	if p.Spawn == "closure" {
		// the let holding the counters returns closures: one starter per routine and a reader;
		// they are called from outside the let, so the let's scope is reached only through
		// the closure (second parent of the callee's scope)
		var rd []string
		for k := range p.Kinds {
			rd = append(rd, p.readExpr(k))
		}
		fmt.Fprintf(&b, "(defvar *k* (let (%s)\n(list %s(lambda () (list %s)))))\n", strings.Join(ls, " "), body.String(), strings.Join(rd, " "))
		for r := range p.Routines {
			fmt.Fprintf(&b, "(funcall (nth %d *k*))\n", r)
		}
		fmt.Fprintf(&b, "(dotimes (i %d) (channel-pop *done*))\n", n)
		fmt.Fprintf(&b, "(let ((fv (funcall (nth %d *k*))))", n)
		for k := range p.Kinds {
			fmt.Fprintf(&b, " (vtrace 'fin %d (nth %d fv))", k, k)
		}
		b.WriteString(")\n")
		for i := range p.Caps {
			fmt.Fprintf(&b, "(vtrace 'len %d (length *ch%d*))\n", i, i)
		}
		return b.String()
	}
	if len(p.Main) > 0 {
		body.WriteString("(progn")
		p.render(&body, n, p.Main, nil, "", 0)
		body.WriteString(")\n")
	}
	fmt.Fprintf(&body, "(dotimes (i %d) (channel-pop *done*))\n", n)
	for k := range p.Kinds {
		if p.Kinds[k] == "ivar" {
			fmt.Fprintf(&body, "(vtrace 'fin %d (send *sp* :c%d))\n", k, k)
			continue
		}
		switch p.Kinds[k] {
		case "wfslot":
			// read through the with-slots variable (from a nested scope) and from the instance: -1 if they differ
			fmt.Fprintf(&body, "(vtrace 'fin %d (let ((a c%d) (b (send *fo* :c%d))) (if (eql a b) a -1)))\n", k, k, k)
			continue
		case "wcslot":
			fmt.Fprintf(&body, "(vtrace 'fin %d (let ((a c%d) (b (slot-value *co* 'c%d))) (if (eql a b) a -1)))\n", k, k, k)
			continue
		}
		fmt.Fprintf(&body, "(vtrace 'fin %d %s)\n", k, p.readExpr(k))
	}
	for i := range p.Caps {
		fmt.Fprintf(&body, "(vtrace 'len %d (length *ch%d*))\n", i, i)
	}
	// slots reached through with-slots variables: the routines are started inside the with-slots
	// body, so the scope holding the slot references is the one `run` makes shared; the final
	// values are read both through the variable and from the instance itself (see above)
	text := body.String()
	if len(wcs) > 0 {
		text = fmt.Sprintf("(with-slots (%s) *co*\n%s)\n", strings.Join(wcs, " "), text)
	}
	if len(wfs) > 0 {
		text = fmt.Sprintf("(with-slots (%s) *fo*\n%s)\n", strings.Join(wfs, " "), text)
	}
	if len(ls) > 0 {
		fmt.Fprintf(&b, "(let (%s)\n%s)\n", strings.Join(ls, " "), text)
	} else {
		b.WriteString(text)
	}
	return b.String()
}

// ---------------------------------------------------------------------------------------------
// running a worker

type c17Run struct {
	Res      *c17Result
	Death    string // first line classifying an abnormal worker exit ("" = exited normally)
	Frame    string // top slip frame of the fatal/panic stack
	Races    []c17Race
	Stderr   string
	Timeout  bool
	Procs    int
	Duration time.Duration
}

type c17Race struct {
	Top, Prev string
}

var (
	c17FrameRe   = regexp.MustCompile(`(?m)^\s*(github\.com/ohler55/slip[^\s(]*(?:\(\*[A-Za-z0-9_]+\))?[^\s(]*)\(`)
	c17ClosureRe = regexp.MustCompile(`\.func\d+(\.\d+)*$|\.\d+$`)
	c17InitRe    = regexp.MustCompile(`\.init\.\d+`)
)

func c17NormFrame(f string) string {
	f = strings.TrimPrefix(f, "github.com/ohler55/")
	for c17ClosureRe.MatchString(f) {
		f = c17ClosureRe.ReplaceAllString(f, "")
	}
	return c17InitRe.ReplaceAllString(f, ".init")
}

func c17TopSlipFrame(stack string) string {
	for _, line := range strings.Split(stack, "\n") {
		if m := c17FrameRe.FindStringSubmatch(line); m != nil {
			if strings.Contains(m[1], "/harness/") {
				continue
			}
			return c17NormFrame(m[1])
		}
	}
	return "-"
}

func c17ParseRaces(stderr string) []c17Race {
	var out []c17Race
	blocks := strings.Split(stderr, "WARNING: DATA RACE")
	for _, blk := range blocks[1:] {
		if i := strings.Index(blk, "=================="); i >= 0 {
			blk = blk[:i]
		}
		// first stack = current access, second ("Previous ...") = the other access
		cur, prev := blk, ""
		if i := strings.Index(blk, "Previous "); i >= 0 {
			cur, prev = blk[:i], blk[i:]
			if j := strings.Index(prev, "Goroutine "); j >= 0 {
				prev = prev[:j]
			}
		}
		out = append(out, c17Race{Top: c17TopSlipFrame(cur), Prev: c17TopSlipFrame(prev)})
	}
	return out
}

func c17Exec(bin string, procs int, src string, yieldSeed uint64, stallS int, deadline time.Duration, race bool) *c17Run {
	job, _ := json.Marshal(c17Job{Program: src, StallS: stallS, YieldSd: yieldSeed})
	ctx, cancel := context.WithTimeout(context.Background(), deadline)
	defer cancel()
	cmd := exec.CommandContext(ctx, bin, "c17worker")
	cmd.Env = append(os.Environ(), fmt.Sprintf("GOMAXPROCS=%d", procs), "GOTRACEBACK=all")
	if race {
		cmd.Env = append(cmd.Env, "GORACE=halt_on_error=0 exitcode=0 history_size=3")
	}
	cmd.Stdin = bytes.NewReader(job)
	var stdout, stderr bytes.Buffer
	cmd.Stdout, cmd.Stderr = &stdout, &stderr
	start := time.Now()
	err := cmd.Run()
	run := &c17Run{Procs: procs, Duration: time.Since(start), Stderr: stderr.String()}
	if len(run.Stderr) > 1<<20 {
		run.Stderr = run.Stderr[:1<<20]
	}
	if race {
		run.Races = c17ParseRaces(run.Stderr)
	}
	if ctx.Err() == context.DeadlineExceeded {
		run.Timeout = true
		return run
	}
	if err != nil {
		run.Death, run.Frame = c17ClassifyDeath(run.Stderr, err)
		return run
	}
	var res c17Result
	if e := json.Unmarshal(stdout.Bytes(), &res); e != nil {
		run.Death = "worker-output-unreadable"
		return run
	}
	run.Res = &res
	return run
}

// c17Alone runs f while no other worker of this harness is running (set by runC17 to a version
// that knows the worker pool; replay runs one worker at a time anyway).
var c17Alone = func(f func()) { f() }

var c17Retried atomic.Int32

// a verdict that may be the machine's and not slip's: the wall-clock deadline passed, or the
// worker disappeared without a Go fatal error / panic message (killed from outside, output cut)
func (r *c17Run) transient() bool {
	return r.Timeout || strings.HasPrefix(r.Death, "exit-") || r.Death == "worker-output-unreadable"
}

// c17ExecSettled = c17Exec, but a transient outcome is only believed after the same job was
// re-run ALONE (no other worker of this harness running) with three times the deadline; what the
// re-run shows is the outcome. Deadlocks found by the worker itself (every routine blocked, twice)
// and Go fatal errors / panics are facts about the run, not about the load, and are not re-run.
func c17ExecSettled(bin string, procs int, src string, yieldSeed uint64, stallS int, deadline time.Duration, race bool) *c17Run {
	run := c17Exec(bin, procs, src, yieldSeed, stallS, deadline, race)
	if run.transient() {
		c17Alone(func() {
			if c17SettledTransient.Load() {
				// a transient outcome was already confirmed by a re-run alone: the verdict of the check
				// is settled, further re-runs (minutes each, one at a time) cannot change it
				return
			}
			c17Retried.Add(1)
			run = c17Exec(bin, procs, src, yieldSeed, stallS, 3*deadline, race)
			if run.transient() {
				c17SettledTransient.Store(true)
			}
		})
	}
	return run
}

var c17SettledTransient atomic.Bool

func c17ClassifyDeath(stderr string, err error) (string, string) {
	for _, line := range strings.Split(stderr, "\n") {
		if strings.HasPrefix(line, "fatal error: ") {
			i := strings.Index(stderr, line)
			return strings.ReplaceAll(strings.TrimPrefix(line, "fatal error: "), " ", "-"), c17TopSlipFrame(stderr[i:])
		}
	}
	for _, line := range strings.Split(stderr, "\n") {
		if strings.HasPrefix(line, "panic: ") {
			i := strings.Index(stderr, line)
			// classify without the message text: a slip condition in a routine, or a Go runtime panic
			cls := "go-panic"
			if strings.Contains(line, "runtime error") {
				cls = "go-runtime-error"
			} else if strings.Contains(line, "slip.Panic") || strings.Contains(line, "*slip.") || strings.Contains(line, "slip.") {
				cls = "slip-condition-in-routine"
			}
			return "panic-" + cls, c17TopSlipFrame(stderr[i:])
		}
	}
	return "exit-" + strings.ReplaceAll(err.Error(), " ", "-"), "-"
}

// ---------------------------------------------------------------------------------------------
// generators

func c17Rep(n int, body ...c17Stmt) c17Stmt  { return c17Stmt{Kind: "repeat", N: n, Body: body} }
func c17Push(ch, v int) c17Stmt              { return c17Stmt{Kind: "push", Ch: ch, V: v} }
func c17Pop(ch int) c17Stmt                  { return c17Stmt{Kind: "pop", Ch: ch} }
func c17Incr(k int) c17Stmt                  { return c17Stmt{Kind: "incr", K: k} }
func c17Lock(m int, body ...c17Stmt) c17Stmt { return c17Stmt{Kind: "lock", M: m, Body: body} }
func c17Hand(body ...c17Stmt) c17Stmt        { return c17Stmt{Kind: "handler", Body: body} }

var c17Fail = c17Stmt{Kind: "fail"}
var c17Yield = c17Stmt{Kind: "yield"}

// split total into n positive parts
func c17Split(rng *lib.Rng, total, n int) []int {
	parts := make([]int, n)
	for i := range parts {
		parts[i] = 1
	}
	for left := total - n; left > 0; left-- {
		parts[rng.Intn(n)]++
	}
	return parts
}

func c17PickCap(rng *lib.Rng) int { return []int{0, 0, 1, 1, 2, 3, 5, 16, 64}[rng.Intn(9)] }

// a critical section incrementing counter k (guard m), optionally leaving by an error or return
func c17Section(rng *lib.Rng, p *c17Prog, k int, exits bool) c17Stmt {
	m := p.Guards[k]
	body := []c17Stmt{c17Incr(k)}
	if rng.Chance(20) {
		// a second counter with the same guard in the same section
		for k2 := range p.Guards {
			if k2 != k && p.Guards[k2] == m {
				body = append(body, c17Incr(k2))
				break
			}
		}
	}
	if exits && rng.Chance(30) {
		if rng.Bool() {
			s := c17Lock(m, append(body, c17Fail)...)
			return c17Hand(s)
		}
		s := c17Lock(m, body...)
		s.Ret = true
		return s
	}
	return c17Lock(m, body...)
}

// counters: nk counters over nm mutexes with random storage kinds. Hash counters share one mutex
// (the table itself is a plain map; the property only covers access under one lock).
func c17Counters(rng *lib.Rng, p *c17Prog, nk, nm int, kinds []string) {
	p.NMutex = nm
	hashM := rng.Intn(nm)
	for k := 0; k < nk; k++ {
		kind := kinds[rng.Intn(len(kinds))]
		m := rng.Intn(nm)
		if kind == "hash" {
			m = hashM
		}
		p.Kinds = append(p.Kinds, kind)
		p.Guards = append(p.Guards, m)
	}
}

// interleave critical sections into a channel skeleton
func c17Mix(rng *lib.Rng, p *c17Prog, skeleton []c17Stmt, sections int, exits bool) []c17Stmt {
	out := append([]c17Stmt{}, skeleton...)
	for i := 0; i < sections && len(p.Kinds) > 0; i++ {
		s := c17Section(rng, p, rng.Intn(len(p.Kinds)), exits)
		at := rng.Intn(len(out) + 1)
		out = append(out[:at], append([]c17Stmt{s}, out[at:]...)...)
	}
	return out
}

// family chan, shape fan: producers and consumers on one channel (per group)
func c17GenFan(rng *lib.Rng, maxOps int, withMutex bool) *c17Prog {
	p := &c17Prog{Family: "chan", Shape: "fan"}
	groups := 1 + rng.Intn(2)
	budget := 8
	if withMutex {
		p.Family = "mixed"
		c17Counters(rng, p, 1+rng.Intn(3), 1+rng.Intn(2), []string{"global", "fslot", "cslot", "hash"})
	}
	for g := 0; g < groups && budget >= 2; g++ {
		ch := len(p.Caps)
		p.Caps = append(p.Caps, c17PickCap(rng))
		np := 1 + rng.Intn(min(3, budget-1))
		nc := 1 + rng.Intn(min(3, budget-np))
		budget -= np + nc
		per := 1 + rng.Intn(maxOps)
		total := 0
		counts := make([]int, np)
		for i := range counts {
			counts[i] = 1 + rng.Intn(per)
			total += counts[i]
		}
		if total < nc {
			counts[0] += nc - total
			total = nc
		}
		for i := 0; i < np; i++ {
			r := len(p.Routines)
			var sk []c17Stmt
			if rng.Chance(50) || withMutex {
				for j := 0; j < counts[i]; j++ {
					sk = append(sk, c17Push(ch, r*1000+j))
				}
			} else {
				sk = []c17Stmt{c17Rep(counts[i], c17Push(ch, r*1000))}
			}
			if withMutex {
				sk = c17Mix(rng, p, sk, rng.Intn(1+counts[i]/2+1), true)
			}
			p.Routines = append(p.Routines, sk)
		}
		for i, cnt := range c17Split(rng, total, nc) {
			_ = i
			var sk []c17Stmt
			if rng.Chance(50) || withMutex {
				for j := 0; j < cnt; j++ {
					sk = append(sk, c17Pop(ch))
				}
			} else {
				sk = []c17Stmt{c17Rep(cnt, c17Pop(ch))}
			}
			if withMutex {
				sk = c17Mix(rng, p, sk, rng.Intn(1+cnt/2+1), true)
			}
			p.Routines = append(p.Routines, sk)
		}
	}
	if withMutex && rng.Chance(35) {
		c17WithSlots(rng, p)
	}
	return p
}

// family chan, shape pipeline: source -> stage workers -> sink
func c17GenPipeline(rng *lib.Rng, maxOps int) *c17Prog {
	p := &c17Prog{Family: "chan", Shape: "pipeline"}
	stages := 1 + rng.Intn(2)
	n := 2 + rng.Intn(maxOps)
	for i := 0; i <= stages; i++ {
		p.Caps = append(p.Caps, c17PickCap(rng))
	}
	p.Routines = append(p.Routines, []c17Stmt{c17Rep(n, c17Push(0, 0))})
	for s := 0; s < stages; s++ {
		workers := 1 + rng.Intn(2)
		for _, cnt := range c17Split(rng, n, min(workers, n)) {
			r := len(p.Routines)
			// a relay pushes its own numbered items (the payload it received is traced)
			p.Routines = append(p.Routines, []c17Stmt{c17Rep(cnt, c17Pop(s), c17Push(s+1, r*1000))})
		}
	}
	p.Routines = append(p.Routines, []c17Stmt{c17Rep(n, c17Pop(stages))})
	return p
}

// family chan, shape roundrobin: one producer feeding dedicated consumers in turn
func c17GenRoundRobin(rng *lib.Rng, maxOps int) *c17Prog {
	p := &c17Prog{Family: "chan", Shape: "roundrobin"}
	nc := 2 + rng.Intn(3)
	n := 1 + rng.Intn(max(1, maxOps/nc))
	var body []c17Stmt
	for c := 0; c < nc; c++ {
		p.Caps = append(p.Caps, c17PickCap(rng))
		body = append(body, c17Push(c, c*100000))
	}
	p.Routines = append(p.Routines, []c17Stmt{c17Rep(n, body...)})
	for c := 0; c < nc; c++ {
		p.Routines = append(p.Routines, []c17Stmt{c17Rep(n, c17Pop(c))})
	}
	if rng.Chance(40) {
		// the main thread is one of the consumers
		p.Main = p.Routines[len(p.Routines)-1]
		p.Routines = p.Routines[:len(p.Routines)-1]
	}
	return p
}

// a select receive over chs with nt time-channel clauses at random positions
func c17Sel(rng *lib.Rng, chs []int, nt int, short bool) c17Stmt {
	perm := append([]int{}, chs...)
	for i := len(perm) - 1; i > 0; i-- {
		j := rng.Intn(i + 1)
		perm[i], perm[j] = perm[j], perm[i]
	}
	s := c17Stmt{Kind: "sel", Chs: perm, Shrt: short, Tick: short && rng.Bool()}
	total := len(perm) + nt
	used := map[int]bool{}
	for len(s.Tpos) < nt {
		pos := rng.Intn(total)
		if !used[pos] {
			used[pos] = true
			s.Tpos = append(s.Tpos, pos)
		}
	}
	sort.Ints(s.Tpos)
	return s
}

// family chan, shape select: producers on the channels of a group, consumers that receive through
// select over the whole group (with time-channel clauses in any position)
func c17GenSelect(rng *lib.Rng, maxOps int) *c17Prog {
	p := &c17Prog{Family: "chan", Shape: "select"}
	ng := 1 + rng.Intn(3)
	var chs []int
	for i := 0; i < ng; i++ {
		chs = append(chs, i)
		p.Caps = append(p.Caps, c17PickCap(rng))
	}
	np := ng + rng.Intn(2)
	nc := 1 + rng.Intn(3)
	total := 0
	for i := 0; i < np; i++ {
		r := len(p.Routines)
		cnt := 1 + rng.Intn(maxOps)
		total += cnt
		p.Routines = append(p.Routines, []c17Stmt{c17Rep(cnt, c17Push(i%ng, r*1000))})
	}
	if total < nc {
		nc = total
	}
	for _, quota := range c17Split(rng, total, nc) {
		short := rng.Chance(25)
		if rng.Chance(50) {
			p.Routines = append(p.Routines, []c17Stmt{c17Rep(quota, c17Sel(rng, chs, rng.Intn(4), short))})
		} else {
			// every receive with its own clause order
			var ss []c17Stmt
			for i := 0; i < quota; i++ {
				ss = append(ss, c17Sel(rng, chs, rng.Intn(3), short))
			}
			p.Routines = append(p.Routines, ss)
		}
	}
	return p
}

// family chan, shape range-close: a producer closes its channel when done, consumers range over it
func c17GenRangeClose(rng *lib.Rng, maxOps int) *c17Prog {
	p := &c17Prog{Family: "chan", Shape: "range-close", NoModel: true}
	if rng.Chance(35) {
		return c17GenRangePool(rng, maxOps)
	}
	ng := 1 + rng.Intn(2)
	for g := 0; g < ng; g++ {
		p.Caps = append(p.Caps, c17PickCap(rng))
		r := len(p.Routines)
		p.Routines = append(p.Routines, []c17Stmt{c17Rep(1+rng.Intn(maxOps), c17Push(g, r*1000)), {Kind: "close", Ch: g}})
		nc := 1 + rng.Intn(3+(2-ng)) // 1..4 consumers on a single channel, 1..3 each on two
		mode := rng.Intn(2)          // all callbacks of a channel plain, or all yielding
		for c := 0; c < nc; c++ {
			p.Routines = append(p.Routines, []c17Stmt{{Kind: "rangeall", Ch: g, N: mode}})
		}
	}
	return p
}

// family chan, shape range-pool (the worker pool of the documentation of range): a producer pushes
// jobs and closes the channel, several workers range over it and pass every job on to a small
// results channel, a collector receives exactly as many results as jobs were pushed.
func c17GenRangePool(rng *lib.Rng, maxOps int) *c17Prog {
	p := &c17Prog{Family: "chan", Shape: "range-pool", NoModel: true}
	p.Caps = []int{c17PickCap(rng), []int{0, 1, 2, 3}[rng.Intn(4)]}
	n := 1 + rng.Intn(maxOps)
	p.Routines = append(p.Routines, []c17Stmt{c17Rep(n, c17Push(0, 0)), {Kind: "close", Ch: 0}})
	for w := 0; w < 1+rng.Intn(4); w++ {
		p.Routines = append(p.Routines, []c17Stmt{{Kind: "rangeall", Ch: 0, N: 2, Chs: []int{1}}})
	}
	coll := []c17Stmt{c17Rep(n, c17Pop(1))}
	if rng.Bool() {
		p.Main = coll
	} else {
		p.Routines = append(p.Routines, coll)
	}
	return p
}

// c17OddValues varies the objects that travel through the channels: strings, lists, symbols
// anywhere; nil, () and t (which carry no item number) from the first producer of a channel that
// has a single consumer thread, where the position in the sequence identifies them.
func c17OddValues(rng *lib.Rng, p *c17Prog) {
	consumers := map[int]map[int]bool{}
	firstProd := map[int]int{}
	var scan func(t int, ss []c17Stmt)
	scan = func(t int, ss []c17Stmt) {
		for _, s := range ss {
			switch s.Kind {
			case "pop", "rangeall":
				if consumers[s.Ch] == nil {
					consumers[s.Ch] = map[int]bool{}
				}
				consumers[s.Ch][t] = true
				if s.Kind == "rangeall" && s.N == 2 {
					// items are passed on to a second channel: numberless objects (identified by their
					// position in a single consumer's sequence) stay out of such channels
					consumers[s.Ch][-1] = true
				}
			case "sel":
				for _, ch := range s.Chs {
					if consumers[ch] == nil {
						consumers[ch] = map[int]bool{}
					}
					consumers[ch][t] = true
				}
			case "push":
				if _, has := firstProd[s.Ch]; !has {
					firstProd[s.Ch] = t
				}
			}
			scan(t, s.Body)
		}
	}
	ts := p.threads()
	for t, ss := range ts {
		scan(t, ss)
	}
	var assign func(t int, ss []c17Stmt)
	assign = func(t int, ss []c17Stmt) {
		for i := range ss {
			if ss[i].Kind == "push" {
				kinds := []string{"", "", "str", "list", "sym"}
				if len(consumers[ss[i].Ch]) == 1 && firstProd[ss[i].Ch] == t {
					kinds = append(kinds, "nil", "nil", "t", "elist")
				}
				ss[i].Val = kinds[rng.Intn(len(kinds))]
			}
			assign(t, ss[i].Body)
		}
	}
	for t := range p.Routines {
		assign(t, p.Routines[t])
	}
	assign(len(p.Routines), p.Main)
}

var c17Spawns = []string{"nested", "method", "clos", "defun", "closure"}

// defensive (set-synchronized inst t) at the start of every routine and between its statements
func c17Defensive(rng *lib.Rng, p *c17Prog) {
	inst := -1
	for k, kind := range p.Kinds {
		if kind == "fslot" || kind == "cslot" {
			inst = k
		}
	}
	if inst < 0 {
		return
	}
	for r, ss := range p.Routines {
		out := []c17Stmt{{Kind: "sync", K: inst}}
		for _, st := range ss {
			out = append(out, st)
			if rng.Chance(30) {
				k := rng.Intn(len(p.Kinds))
				if p.Kinds[k] == "fslot" || p.Kinds[k] == "cslot" {
					out = append(out, c17Stmt{Kind: "sync", K: k})
				}
			}
		}
		p.Routines[r] = out
	}
}

// c17WithSlots turns some instance slot counters into with-slots variables: the routines are
// started inside the with-slots body (the scope holding the slot references becomes shared) and
// every read goes through a nested scope (the let of an increment, a dotimes body, the routine's
// own scope). Only for routines started in the lexical scope of the program text.
func c17WithSlots(rng *lib.Rng, p *c17Prog) {
	if p.Spawn != "" && p.Spawn != "nested" {
		return
	}
	for k, kind := range p.Kinds {
		if kind == "fslot" && rng.Chance(60) {
			p.Kinds[k] = "wfslot"
		} else if kind == "cslot" && rng.Chance(60) {
			p.Kinds[k] = "wcslot"
		}
	}
}

// family mutex: routines hammering guarded counters
func c17GenMutex(rng *lib.Rng, maxOps int, kinds []string) *c17Prog {
	p := &c17Prog{Family: "mutex", Shape: "counters"}
	c17Counters(rng, p, 1+rng.Intn(4), 1+rng.Intn(3), kinds)
	nr := 2 + rng.Intn(7)
	for r := 0; r < nr; r++ {
		var ss []c17Stmt
		if rng.Chance(40) {
			// a loop over one or two sections
			var body []c17Stmt
			for i := 0; i < 1+rng.Intn(2); i++ {
				body = append(body, c17Section(rng, p, rng.Intn(len(p.Kinds)), true))
			}
			ss = []c17Stmt{c17Rep(1+rng.Intn(max(1, maxOps/len(body))), body...)}
		} else {
			for i := 0; i < 1+rng.Intn(maxOps); i++ {
				ss = append(ss, c17Section(rng, p, rng.Intn(len(p.Kinds)), true))
				if rng.Chance(10) {
					ss = append(ss, c17Yield)
				}
			}
		}
		if rng.Chance(25) && p.NMutex > 1 {
			// nested sections, always taken in increasing mutex order
			k1, k2 := -1, -1
			for k, m := range p.Guards {
				if m == 0 && k1 < 0 {
					k1 = k
				}
				if m == 1 && k2 < 0 {
					k2 = k
				}
			}
			if k1 >= 0 && k2 >= 0 {
				ss = append(ss, c17Hand(c17Lock(0, c17Incr(k1), c17Lock(1, c17Incr(k2), c17Fail))),
					c17Lock(0, c17Incr(k1), c17Lock(1, c17Incr(k2))))
			}
		}
		p.Routines = append(p.Routines, ss)
	}
	if rng.Chance(30) {
		// the main thread takes part (at most 8 threads in all)
		if len(p.Routines) == 8 {
			p.Routines = p.Routines[:7]
		}
		p.Main = []c17Stmt{c17Rep(1+rng.Intn(maxOps), c17Section(rng, p, rng.Intn(len(p.Kinds)), false))}
	}
	if rng.Chance(50) {
		// routines started from inside methods, functions, nested scopes or closures
		p.Spawn = c17Spawns[rng.Intn(len(c17Spawns))]
		if p.Spawn == "closure" {
			p.Main = nil
		}
		if p.Spawn == "method" && rng.Chance(50) {
			// some counters are instance variables of the (unsynchronized) instance whose methods
			// start the routines
			for k, kind := range p.Kinds {
				if kind != "hash" && rng.Chance(50) {
					p.Kinds[k] = "ivar"
					p.Main = nil
				}
			}
		}
	}
	if rng.Chance(40) {
		c17Defensive(rng, p)
	}
	if rng.Chance(40) {
		c17WithSlots(rng, p)
	}
	return p
}

// family sync: every routine owns one slot of a synchronized instance and updates it without a
// mutex (single writer per slot; the instance's own lock protects the slot table)
func c17GenSync(rng *lib.Rng, maxOps int) *c17Prog {
	p := &c17Prog{Family: "sync", Shape: "own-slot"}
	nr := 2 + rng.Intn(7)
	kind := []string{"fslot", "cslot", "global"}[rng.Intn(3)]
	for r := 0; r < nr; r++ {
		p.Kinds = append(p.Kinds, kind)
		p.Guards = append(p.Guards, r) // model: a private mutex per counter
		p.Routines = append(p.Routines, []c17Stmt{c17Rep(1+rng.Intn(maxOps), c17Stmt{Kind: "incr", K: r})})
	}
	p.NMutex = 0
	if rng.Chance(50) && kind != "global" {
		// every routine (re-)enables synchronization itself, also inside its loop
		for r := range p.Routines {
			rp := p.Routines[r][0]
			rp.Body = append([]c17Stmt{{Kind: "sync", K: r}}, rp.Body...)
			p.Routines[r] = []c17Stmt{{Kind: "sync", K: r}, rp}
		}
	}
	if rng.Chance(35) {
		c17WithSlots(rng, p)
	}
	return p
}

const c17TablesPrelude = `(defclass c17root () ())
(defgeneric c17g (x y))
(defmethod c17g ((x c17root) y) (list 'root y))
(defclass c17k0 (c17root) ())
(defclass c17k1 (c17root) ())
(defclass c17k2 (c17k1) ())
(defclass c17k3 (c17k2) ())
(defmethod c17g ((x c17k1) y) (list 'k1 y))
(defmethod c17g ((x c17k3) y) (list 'k3 y))
(defgeneric c17h (a b))
(defmethod c17h ((a fixnum) (b string)) (list 'fs a))
(defmethod c17h ((a symbol) b) (list 'sym b))
(defflavor c17base ((base 5)) () :gettable-instance-variables)
(defmethod (c17base :twice) () (* 2 base))
(defflavor c17fl0 ((x 0)) (c17base) :gettable-instance-variables :settable-instance-variables :initable-instance-variables)
(defflavor c17fl1 ((x 0)) (c17base) :gettable-instance-variables :settable-instance-variables :initable-instance-variables)
(defflavor c17fl2 ((x 0)) (c17fl1) :gettable-instance-variables :settable-instance-variables :initable-instance-variables)
(defmethod (c17fl0 :bump) (d) (+ x d base))
(defmethod (c17fl1 :bump) (d) (+ x d d base))
(defmethod (c17fl2 :before :bump) (d) nil)
(defun c17f0 (x) (+ x 1))
(defun c17f1 (x) (if (< x 500) (list x 'small) (list x 'large)))
(defun c17f2 (x) (let ((acc nil)) (dotimes (i 3) (setq acc (cons (+ x i) acc))) acc))
`

// evaluating the prelude's functions and methods once before the routines start: code that two
// routines evaluate for the first time at the same moment is a listed finding (the evaluator
// rewrites argument slots on first evaluation), composite programs stay away from it
const c17TablesWarm = `(list (c17f0 1) (c17f1 1) (c17f1 999) (c17f2 1))
(list (c17g (make-instance 'c17k0) 0) (c17g (make-instance 'c17k1) 0) (c17g (make-instance 'c17k2) 0) (c17g (make-instance 'c17k3) 0) (c17h 1 "s") (c17h 'y 1))
(let ((o (make-instance 'c17fl0 :x 1))) (send o :set-x (+ (send o :x) 1)) (list (send o :bump 2) (send o :twice) (send o :x)))
(let ((o (make-instance 'c17fl1 :x 1))) (send o :set-x (+ (send o :x) 1)) (list (send o :bump 2) (send o :twice) (send o :x)))
(let ((o (make-instance 'c17fl2 :x 1))) (send o :set-x (+ (send o :x) 1)) (list (send o :bump 2) (send o :twice) (send o :x)))
`

// family tables, shape dispatch-race: every generic function has one routine that adds, redefines
// and removes methods on it (and calls it right after each change: it must see its own change)
// while the other routines keep calling the same generic functions with instances of all classes.
// Method bodies are fixnum atoms (tag = class*1000 + version), so no code is compiled on first call.
// After all routines finished the main thread calls every (generic, class) pair: the values must be
// those of a sequential run, i.e. the final method tables.
func c17GenDispatchRace(rng *lib.Rng, opsPerGen, callsPerCaller, ngen, ncallers int) *c17Prog {
	p := &c17Prog{Family: "tables", Shape: "dispatch-race", Loose: map[string][]int64{}}
	parent := []int{-1, -1, 1, 2, 0} // k0, k1 under root; k2 under k1; k3 under k2; k4 under k0
	var pre strings.Builder
	pre.WriteString("(defclass c17root () ())\n")
	for c, par := range parent {
		sup := "c17root"
		if par >= 0 {
			sup = fmt.Sprintf("c17k%d", par)
		}
		fmt.Fprintf(&pre, "(defclass c17k%d (%s) ())\n", c, sup)
	}
	for g := 0; g < ngen; g++ {
		fmt.Fprintf(&pre, "(defgeneric c17r%d (x))\n(defmethod c17r%d ((x c17root)) 0)\n", g, g)
	}
	p.Prelude = pre.String()
	ndef := 1 + rng.Intn(2)
	definers := make([][]string, ndef)
	tags := make([]map[int][]int64, ngen) // generic -> class -> every tag ever defined
	for g := 0; g < ngen; g++ {
		tags[g] = map[int][]int64{}
		d := g % ndef
		defined := map[int]bool{}
		version := 0
		for i := 0; i < opsPerGen; i++ {
			// two or three changes back to back: the first empties the dispatch cache, so the
			// callers compute effective methods while the next change is being made
			var ops []string
			for b := 0; b < 2+rng.Intn(2); b++ {
				c := rng.Intn(len(parent))
				if defined[c] && rng.Chance(30) {
					ops = append(ops, fmt.Sprintf("(remove-method 'c17r%d (find-method 'c17r%d '() '(c17k%d)))", g, g, c))
					defined[c] = false
				} else {
					version++
					tag := int64((c+1)*1000 + version)
					ops = append(ops, fmt.Sprintf("(defmethod c17r%d ((x c17k%d)) %d)", g, c, tag))
					tags[g][c] = append(tags[g][c], tag)
					defined[c] = true
				}
			}
			// after its changes (and a pause in which the callers run) the definer calls the generic
			// function with an instance of every class: it must see exactly its own method table
			var probes []string
			for k := range parent {
				probes = append(probes, fmt.Sprintf("(c17r%d (make-instance 'c17k%d))", g, k))
			}
			definers[d] = append(definers[d], fmt.Sprintf("(progn %s (vyield) (list %s))", strings.Join(ops, " "), strings.Join(probes, " ")))
		}
	}
	for _, forms := range definers {
		p.Tables = append(p.Tables, forms)
	}
	for q := 0; q < ncallers; q++ {
		r := len(p.Tables)
		var forms []string
		for i := 0; i < callsPerCaller; i++ {
			g, c := rng.Intn(ngen), rng.Intn(len(parent))
			// a burst of calls: whichever of them comes first after a change of the generic function
			// computes the effective method anew
			forms = append(forms, fmt.Sprintf("(let ((o (make-instance 'c17k%d)) (v 0)) (dotimes (j 4) (setq v (c17r%d o))) v)", c, g))
			allowed := []int64{0}
			for k := c; k >= 0; k = parent[k] {
				allowed = append(allowed, tags[g][k]...)
			}
			p.Loose[fmt.Sprintf("%d-%d", r, i)] = allowed
		}
		p.Tables = append(p.Tables, forms)
	}
	for g := 0; g < ngen; g++ {
		for c := range parent {
			p.Finals = append(p.Finals, fmt.Sprintf("(c17r%d (make-instance 'c17k%d))", g, c))
		}
	}
	return p
}

// c17PrettyForm is a form that pretty prints a list nested `depth` levels deep with the given right
// margin through write-to-string, prin1-to-string or format ~S. Continuation lines are indented by
// about one column per level with a narrow margin and by much more with a wide one.
func c17PrettyForm(id string, depth, margin, via int) string {
	nest := "(omega psi)"
	for d := 0; d < depth; d++ {
		nest = fmt.Sprintf("(lambda-%d kappa-%d %s mu)", d, depth, nest)
	}
	form := fmt.Sprintf("'(alpha-%s (beta %d gamma) %s \"str\")", id, depth, nest)
	var call string
	switch via {
	case 0:
		call = "(write-to-string " + form + ")"
	case 1:
		call = "(prin1-to-string " + form + ")"
	default:
		call = "(format nil \"~S\" " + form + ")"
	}
	return fmt.Sprintf("(let ((*print-pretty* t) (*print-right-margin* %d)) %s)", margin, call)
}

// family tables: routines that define and use their own variables, functions, flavors, classes,
// methods on a shared generic function, and print
func c17GenTables(rng *lib.Rng, maxOps int, definers, warm bool) *c17Prog {
	p := &c17Prog{Family: "tables", Shape: "defs+print"}
	p.Prelude = c17TablesPrelude
	if warm {
		p.Prelude += c17TablesWarm
	}
	nr := 2 + rng.Intn(7)
	for r := 0; r < nr; r++ {
		var forms []string
		for i := 0; i < 1+rng.Intn(maxOps); i++ {
			id := fmt.Sprintf("%d-%d", r, i)
			n := rng.Intn(1000)
			pick := rng.Intn(13)
			if !definers && pick < 4 {
				// defining functions, classes or flavors while other routines evaluate is a listed
				// finding: composite programs stay away from it
				pick = 4 + rng.Intn(9)
			}
			switch pick {
			case 0:
				forms = append(forms, fmt.Sprintf("(progn (defun tf-%s (x) (+ x %d)) (tf-%s 1))", id, n, id))
			case 1:
				forms = append(forms, fmt.Sprintf("(progn (defflavor tfl-%s ((x %d)) (c17base) :gettable-instance-variables) (defmethod (tfl-%s :bump) (d) (+ x d base)) (let ((o (make-instance 'tfl-%s))) (list (send o :bump 1) (send o :twice) (send o :x))))", id, n, id, id))
			case 2:
				forms = append(forms, fmt.Sprintf("(progn (defclass tc-%s (c17root) ((s :initform %d :accessor tc-%s-s))) (let ((o (make-instance 'tc-%s))) (list (c17g o 1) (progn (defmethod c17g ((x tc-%s) y) (list 'own-%s y)) (c17g o 2)) (tc-%s-s o))))", id, n, id, id, id, id, id))
			case 3:
				forms = append(forms, fmt.Sprintf("(progn (defgeneric tg-%s (x)) (defmethod tg-%s ((x fixnum)) (+ x %d)) (tg-%s 1))", id, id, n, id))
			case 4:
				forms = append(forms, fmt.Sprintf("(progn (defvar *tv-%s* %d) (setq *tv-%s* (+ *tv-%s* 1)) *tv-%s*)", id, n, id, id, id))
			case 5:
				forms = append(forms, fmt.Sprintf("(format nil \"~A|~D|~S|~5,'0D|~X\" 'sym-%s %d \"s%d\" %d %d)", id, n, n, n, n))
			case 6:
				// pretty printing: shallow and very deep forms, narrow and wide margins
				depth, margin := rng.Intn(4), 8+rng.Intn(20)
				if rng.Chance(40) {
					depth = 20 + rng.Intn(140)
				}
				if rng.Chance(30) {
					margin = 80 + rng.Intn(250)
				}
				forms = append(forms, c17PrettyForm(id, depth, margin, rng.Intn(3)))
			case 7:
				forms = append(forms, fmt.Sprintf("(princ-to-string (list %d 'q-%s \"x\" #\\a (/ %d 7) %d.5))", n, id, n+1, n))
			case 8:
				forms = append(forms, fmt.Sprintf("(let ((*print-base* %d)) (write-to-string %d))", []int{2, 8, 16, 36}[rng.Intn(4)], n*7919))
			case 9:
				// generic dispatch on prelude classes (fills and reads the dispatch cache)
				// the second argument's type varies: new (type, type) keys enter the cache while
				// other routines dispatch
				ys := []string{strconv.Itoa(n), "\"s\"", "'sym", "1.5", "(list 1 2)", "#\\a", "nil", "t", "1/3"}
				forms = append(forms, fmt.Sprintf("(list (c17g (make-instance 'c17k%d) %s) (c17g (make-instance 'c17k%d) %s) (c17h %d \"s\") (c17h 'y %s))", rng.Intn(4), ys[rng.Intn(len(ys))], rng.Intn(4), ys[rng.Intn(len(ys))], n, ys[rng.Intn(len(ys))]))
			case 10:
				// flavor instances and methods defined in the prelude
				forms = append(forms, fmt.Sprintf("(let ((o (make-instance 'c17fl%d :x %d))) (send o :set-x (+ (send o :x) 1)) (list (send o :bump 2) (send o :twice) (send o :x)))", rng.Intn(3), n))
			case 11:
				forms = append(forms, fmt.Sprintf("(c17f%d %d)", rng.Intn(3), n))
			default:
				forms = append(forms, fmt.Sprintf("(progn (defvar *tw-%s* (list %d)) (setq *tw-%s* (cons 'h-%s *tw-%s*)) (length *tw-%s*))", id, n, id, id, id, id))
			}
		}
		p.Tables = append(p.Tables, forms)
	}
	return p
}

// ---------------------------------------------------------------------------------------------
// checking one run

type c17Case struct {
	Prog  *c17Prog
	Cell  string // sweep cell name ("" = composite)
	Procs []int
	Race  bool
}

type c17Verdict struct {
	Sig      string
	Observed string
	Expected string
}

// checkRun turns one worker run into verdicts. model is the reply to the program's `conc run`
// request (empty for families without a model run); seqTrace the sequential reference (tables).
func c17CheckRun(c *lib.Ctx, cs *c17Case, run *c17Run, model map[string]string, seqVals map[[2]int64]string) []c17Verdict {
	p := cs.Prog
	pre := "family=" + p.Family
	if cs.Cell != "" {
		pre = "cell=" + cs.Cell
	}
	var out []c17Verdict
	add := func(sig, obs, exp string) { out = append(out, c17Verdict{pre + " " + sig, obs, exp}) }
	for _, r := range run.Races {
		if r.Top == "-" && r.Prev == "-" {
			continue // no slip frame on either side: not about slip
		}
		add(c17RaceSig(cs.Cell, r), fmt.Sprintf("data race reported by the Go race detector: access in %s, conflicting access in %s", r.Top, r.Prev), "no race report naming slip frames")
	}
	switch {
	case run.Timeout:
		add("hang=deadline", "worker did not finish before the deadline", "program completes")
		return out
	case run.Death != "":
		add(c17DeathSig(cs.Cell, run.Death, run.Frame), fmt.Sprintf("worker died (%s, top slip frame %s): %s", run.Death, run.Frame, c17FirstLines(run.Stderr, 6)), "worker exits normally")
		return out
	case run.Res.Hang:
		add("hang=stalled frame="+c17BlockedFrame(run.Res.Stacks), "no progress: "+c17FirstLines(run.Res.Stacks, 12), "program completes")
		return out
	case !run.Res.Ok:
		add("error="+run.Res.Class, "main thread: "+run.Res.Class+": "+run.Res.Msg, "program completes")
		return out
	}
	if p.Family == "tables" {
		got := map[[2]int64]string{}
		for _, e := range run.Res.Trace {
			if e.T == "val" && len(e.A) >= 2 {
				got[[2]int64{e.A[0], e.A[1]}] = c17ValString(e)
			}
			if e.T == "lv" && len(e.A) >= 2 {
				allowed := p.Loose[fmt.Sprintf("%d-%d", e.A[0], e.A[1])]
				ok := false
				for _, a := range allowed {
					if len(e.A) >= 3 && e.A[2] == a && e.S == "" {
						ok = true
					}
				}
				if !ok {
					form := p.Tables[e.A[0]][e.A[1]]
					add("aspect=value-during-race op="+c17FormOp(form), fmt.Sprintf("%s => %s", form, c17ValString(e)), fmt.Sprintf("one of %v", allowed))
				}
			}
		}
		keys := make([][2]int64, 0, len(seqVals))
		for k := range seqVals {
			keys = append(keys, k)
		}
		sort.Slice(keys, func(i, j int) bool {
			return keys[i][0] < keys[j][0] || keys[i][0] == keys[j][0] && keys[i][1] < keys[j][1]
		})
		for _, k := range keys {
			if g, ok := got[k]; !ok || g != seqVals[k] {
				form := "?"
				if k[0] == 99 && int(k[1]) < len(p.Finals) {
					form = "after quiescence: " + p.Finals[k[1]]
				} else if int(k[0]) < len(p.Tables) {
					form = p.Tables[k[0]][k[1]]
				}
				add("aspect=value op="+c17FormOp(form), fmt.Sprintf("%s => %q", form, g), fmt.Sprintf("%q (sequential run)", seqVals[k]))
			}
		}
		return out
	}
	// histories
	threads := p.threads()
	if p.Shared || p.Defun {
		// every routine ran routine 0's code and reported as routine 0: collapse
		threads = [][]c17Stmt{}
		var all []c17Stmt
		for range p.Routines {
			all = append(all, p.Routines[0]...)
		}
		threads = append(threads, all)
	}
	nch := len(p.Caps)
	sent := make([]map[int][]int, nch) // channel -> producer -> values
	for i := range sent {
		sent[i] = map[int][]int{}
	}
	incrs := make([]int, len(p.Kinds))
	whoSent := map[[2]int]int{} // (channel, value) -> producer
	type sentItem struct {
		v    int
		kind string
	}
	sentKind := map[[2]int]string{}
	seqOf := map[[2]int][]sentItem{} // (channel, producer) -> its items in order
	anonProd := map[int]int{}        // channel -> the producer that sends numberless items (nil, t)
	anonPtr := map[int]int{}         // channel -> next item of that producer the (single) consumer expects
	unknown := 0
	for t, ss := range threads {
		c17Walk(c17Expand(ss), func(s c17Stmt) {
			switch s.Kind {
			case "push":
				sent[s.Ch][t] = append(sent[s.Ch][t], s.V)
				whoSent[[2]int{s.Ch, s.V}] = t
				k := c17RecvKind(s.Val, s.Ret)
				sentKind[[2]int{s.Ch, s.V}] = k
				seqOf[[2]int{s.Ch, t}] = append(seqOf[[2]int{s.Ch, t}], sentItem{s.V, k})
				if k == "nil" || k == "t" {
					anonProd[s.Ch] = t
				}
			case "incr":
				incrs[s.K]++
			}
		})
	}
	// workers of a pool: (thread, channel it ranges over) -> channel it passes the items on to
	fwd := map[[2]int]int{}
	for t, ss := range threads {
		for _, st := range c17Expand(ss) {
			if st.Kind == "rangeall" && st.N == 2 && len(st.Chs) == 1 {
				fwd[[2]int{t, st.Ch}] = st.Chs[0]
			}
		}
	}
	recv := make([]map[int][]string, nch) // channel -> consumer -> items "p.v"
	for i := range recv {
		recv[i] = map[int][]string{}
	}
	var mlog, reads, finals, lin []string
	linPending := map[[2]int64]bool{}
	lens := map[int]int64{}
	finalVal := map[int]int64{}
	for _, e := range run.Res.Trace {
		switch e.T {
		case "rv":
			if len(e.A) >= 2 && e.A[1] >= 0 && int(e.A[1]) < nch {
				ch := int(e.A[1])
				unknown++
				item := fmt.Sprintf("99999.%d", unknown) // an object nobody sent
				num, kind, ok := c17DecodeItem(e)
				switch {
				case !ok:
				case kind == "nil" || kind == "t":
					// numberless: it is the next item the (single) consumer of this channel expects
					// from the one producer that sends such objects, if that item has this kind
					if ap, has := anonProd[ch]; has {
						seq := seqOf[[2]int{ch, ap}]
						if j := anonPtr[ch]; j < len(seq) && seq[j].kind == kind {
							item = fmt.Sprintf("%d.%d", ap, seq[j].v)
							anonPtr[ch] = j + 1
						}
					}
				default:
					if prod, has := whoSent[[2]int{ch, int(num)}]; has && sentKind[[2]int{ch, int(num)}] == kind {
						item = fmt.Sprintf("%d.%d", prod, num)
						if to, isFwd := fwd[[2]int{int(e.A[0]), ch}]; isFwd && to < nch {
							// the worker passes this very object on: from here on it is an item the
							// worker sends on the results channel (recorded before the worker's push)
							w := int(e.A[0])
							if _, dup := whoSent[[2]int{to, int(num)}]; !dup {
								sent[to][w] = append(sent[to][w], int(num))
								whoSent[[2]int{to, int(num)}] = w
								sentKind[[2]int{to, int(num)}] = kind
							}
						}
						if ap, has := anonProd[ch]; has && ap == prod {
							for j, si := range seqOf[[2]int{ch, ap}] {
								if si.v == int(num) && j >= anonPtr[ch] {
									anonPtr[ch] = j + 1
								}
							}
						}
					}
				}
				recv[ch][int(e.A[0])] = append(recv[ch][int(e.A[0])], item)
			}
		case "en":
			mlog = append(mlog, fmt.Sprintf("e.%d.%d", e.A[0], e.A[1]))
		case "ex":
			mlog = append(mlog, fmt.Sprintf("x.%d.%d", e.A[0], e.A[1]))
		case "iv":
			if len(e.A) >= 2 && !linPending[[2]int64{e.A[0], e.A[1]}] {
				linPending[[2]int64{e.A[0], e.A[1]}] = true
				lin = append(lin, fmt.Sprintf("i.%d.%d", e.A[0], e.A[1]))
			}
		case "rs":
			if len(e.A) >= 2 {
				lin = append(lin, fmt.Sprintf("r.%d.%d", e.A[0], e.A[1]))
			}
		case "rd":
			v := e.A[2]
			if v < 0 {
				v = 999999999
			}
			reads = append(reads, fmt.Sprintf("%d.%d", e.A[1], v))
			if !linPending[[2]int64{e.A[0], e.A[1]}] {
				// no invocation on record (an increment in a nested position): invoked just now
				lin = append(lin, fmt.Sprintf("i.%d.%d", e.A[0], e.A[1]))
			}
			delete(linPending, [2]int64{e.A[0], e.A[1]})
			lin = append(lin, fmt.Sprintf("p.%d.%d.%d", e.A[0], e.A[1], v))
		case "fin":
			v := e.A[1]
			if v < 0 {
				v = 999999999
			}
			finals = append(finals, fmt.Sprintf("%d.%d", e.A[0], v))
			finalVal[int(e.A[0])] = e.A[1]
		case "len":
			lens[int(e.A[0])] = e.A[1]
		}
	}
	var reqs, names []string
	for ch := 0; ch < nch; ch++ {
		var sp []string
		prods := []int{}
		for t := range sent[ch] {
			prods = append(prods, t)
		}
		sort.Ints(prods)
		for _, t := range prods {
			vs := make([]string, len(sent[ch][t]))
			for i, v := range sent[ch][t] {
				vs[i] = strconv.Itoa(v)
			}
			sp = append(sp, fmt.Sprintf("%d:%s", t, strings.Join(vs, ",")))
		}
		cons := []int{}
		for t := range recv[ch] {
			cons = append(cons, t)
		}
		sort.Ints(cons)
		var rp []string
		for _, t := range cons {
			rp = append(rp, strings.Join(recv[ch][t], ","))
		}
		s, r := strings.Join(sp, ";"), strings.Join(rp, ";")
		if s == "" {
			s = "-"
		}
		if len(cons) == 0 {
			r = "-"
		}
		reqs = append(reqs, fmt.Sprintf("conc fifo 1 %s %s -", s, r))
		names = append(names, fmt.Sprintf("fifo ch=%d cap=%d", ch, p.Caps[ch]))
	}
	if len(mlog) > 0 {
		reqs = append(reqs, "conc mutex 1 "+strings.Join(mlog, ","))
		names = append(names, "mutex")
	}
	if len(finals) > 0 && !p.Burst {
		r := strings.Join(reads, ",")
		if r == "" {
			r = "-"
		}
		reqs = append(reqs, fmt.Sprintf("conc counter %s %s", r, strings.Join(finals, ",")))
		names = append(names, "counter")
	}
	if len(reads) > 0 && !p.Burst && !p.Shared && !p.Defun {
		// the whole history of increment operations (all counters): linearizable?
		reqs = append(reqs, "conc lin "+strings.Join(lin, ","))
		names = append(names, "lin")
	}
	replies := c.Model(reqs)
	for i, rep := range replies {
		if rep == "ok pass" || strings.HasPrefix(rep, "ok pass ") {
			continue
		}
		what := names[i]
		sig := ""
		switch {
		case strings.HasPrefix(what, "fifo"):
			sig = fmt.Sprintf("checker=fifo verdict=%s %s", strings.TrimPrefix(rep, "ok fail "), strings.SplitN(what, " ", 3)[2])
		case what == "mutex":
			sig = "checker=mutex verdict=" + strings.SplitN(strings.TrimPrefix(rep, "ok fail "), "=", 2)[0]
		case what == "lin":
			f := strings.Fields(strings.TrimPrefix(rep, "ok fail "))
			kind := "-"
			for _, x := range f {
				if ks, ok := strings.CutPrefix(x, "k="); ok {
					if k, err := strconv.Atoi(ks); err == nil && k < len(p.Kinds) {
						kind = p.Kinds[k]
					}
				}
			}
			verdict := "?"
			if len(f) > 0 {
				verdict = f[0]
			}
			sig = "checker=lin verdict=" + verdict + " kind=" + kind
		default:
			kind := "?"
			if f := strings.TrimPrefix(rep, "ok fail k="); f != rep {
				if k, err := strconv.Atoi(f); err == nil && k < len(p.Kinds) {
					kind = p.Kinds[k]
				}
			}
			sig = "checker=counter kind=" + kind
		}
		add(sig, rep+"   request: "+c17Clip(reqs[i], 600), "ok pass")
	}
	// schedule-independent final state against the model run and the program itself
	for k, n := range incrs {
		if v, ok := finalVal[k]; !ok || v != int64(n) {
			add("final=counter kind="+p.Kinds[k], fmt.Sprintf("counter %d = %d", k, finalVal[k]), fmt.Sprintf("%d completed increments", n))
		}
	}
	for ch := 0; ch < nch; ch++ {
		if lens[ch] != 0 {
			add(fmt.Sprintf("final=channel-length cap=%d", p.Caps[ch]), fmt.Sprintf("(length ch%d) = %d after all routines finished", ch, lens[ch]), "0 (pushes = pops)")
		}
	}
	// channels that are closed and drained by range consumers: the run of Model/Close.lean
	// (`conc close`, Close.step under a seeded schedule) says how many items are received in all
	// and that nothing is left; Theorems/C17Close.lean proves this for every schedule
	for ch := 0; ch < nch; ch++ {
		want, has := model[fmt.Sprintf("close%d.received", ch)]
		if !has {
			continue
		}
		n := 0
		for _, l := range recv[ch] {
			n += len(l)
		}
		if strconv.Itoa(n) != want {
			add(fmt.Sprintf("model=close-received cap=%d", p.Caps[ch]), fmt.Sprintf("%d items received on ch%d by its range consumers", n, ch), "model run (close + range): "+want)
		}
		if l := model[fmt.Sprintf("close%d.left", ch)]; l != strconv.FormatInt(lens[ch], 10) {
			add(fmt.Sprintf("model=close-left cap=%d", p.Caps[ch]), fmt.Sprintf("(length ch%d) = %d", ch, lens[ch]), "model run (close + range): "+l)
		}
	}
	if model != nil && model["q"] != "" && !p.Shared && !p.Defun {
		if model["finals"] != "" && model["finals"] != "-" {
			want := strings.Split(model["finals"], ",")
			for k, w := range want {
				if k < len(p.Kinds) && strconv.FormatInt(finalVal[k], 10) != w {
					add("model=finals kind="+p.Kinds[k], fmt.Sprintf("counter %d = %d", k, finalVal[k]), "model run: "+w)
				}
			}
		}
		// per channel the sorted multiset of received items
		mitems := strings.Split(model["items"], ";")
		for ch := 0; ch < nch && ch < len(mitems); ch++ {
			var all []string
			for _, l := range recv[ch] {
				all = append(all, l...)
			}
			if c17SortItems(all) != c17SortItems(c17SplitDash(mitems[ch])) {
				add(fmt.Sprintf("model=items cap=%d", p.Caps[ch]), "received on ch"+strconv.Itoa(ch)+": "+c17Clip(c17SortItems(all), 300), "model run: "+c17Clip(c17SortItems(c17SplitDash(mitems[ch])), 300))
			}
		}
		// number of items each thread received
		mgot := strings.Split(model["got"], ",")
		for t := range threads {
			n := 0
			for ch := 0; ch < nch; ch++ {
				n += len(recv[ch][t])
			}
			if t < len(mgot) && strconv.Itoa(n) != mgot[t] {
				add("model=received-count", fmt.Sprintf("thread %d received %d items", t, n), "model run: "+mgot[t])
			}
		}
	}
	return out
}

// ---------------------------------------------------------------------------------------------
// signatures of the constructs that are LISTED findings. Which fatal-error class and which top
// frame a run shows for one and the same unsynchronized table is a matter of timing (as is which
// of the two accesses the race detector prints first), so the signature of a listed construct is
// decided by a rule about the construct, never by the incidental frame: the sweep cell that
// isolates the construct + the class of manifestation. Everything else keeps the detailed
// signature (class + top frame) and is never excused.

func c17HasAnyPrefix(f string, prefixes ...string) bool {
	for _, p := range prefixes {
		if strings.HasPrefix(f, p) {
			return true
		}
	}
	return false
}

// functions that read or update a method object (slip.Method / Combination / Lambda) in place
func c17MethodObjectFrame(f string) bool {
	return c17HasAnyPrefix(f, "slip.(*Method).", "slip.(*Lambda).", "slip.(*Combination).",
		"slip/pkg/generic.addMethodCaller", "slip/pkg/generic.defGenericMethod", "slip/pkg/generic.(*Defmethod).",
		"slip/pkg/generic.(*RemoveMethod).", "slip/pkg/generic.DefCallerMethod")
}

// the evaluator's first evaluation of a form (it stores the compiled arguments back into the form)
func c17FirstEvalFrame(f string) bool {
	return c17HasAnyPrefix(f, "slip.(*Function).", "slip.EvalArg", "slip.CompileList", "slip.ListToFunc", "slip.CompileArgs")
}

func c17RaceSig(cell string, r c17Race) string {
	var known []string
	for _, f := range []string{r.Top, r.Prev} {
		if f != "-" {
			known = append(known, f)
		}
	}
	// at least one access is in the construct's code, the other one is too or is the creation of
	// the object (the creator closure registered by an init function: `…pkg/xx.init`), i.e. the
	// object reached the other routine without synchronization
	rule := func(pred func(string) bool) bool {
		hit := false
		for _, f := range known {
			switch {
			case pred(f):
				hit = true
			case strings.HasSuffix(f, ".init"):
			default:
				return false
			}
		}
		return hit
	}
	switch {
	case cell == "dispatch-race" && rule(c17MethodObjectFrame):
		return "race kind=method-object-updated-in-place"
	case strings.HasPrefix(cell, "shared-") && rule(c17FirstEvalFrame):
		return "race kind=first-evaluation-rewrites-shared-code"
	}
	top := r.Top
	if top == "-" {
		top = r.Prev
	}
	return "race top=" + top
}

// c17DeathSig: in the define-* cells (a definer of functions / classes / flavors runs while other
// routines evaluate) the package's function, class and flavor tables are unsynchronized Go maps:
// the runtime's concurrent-map detection (any of its three messages, in whichever function
// touched the map), a Go runtime error inside the map code, or a routine that does not find what
// was just defined are manifestations of that one construct.
func c17DeathSig(cell, death, frame string) string {
	if strings.HasPrefix(cell, "define-") &&
		(strings.HasPrefix(death, "concurrent-map-") || death == "panic-go-runtime-error" || death == "panic-slip-condition-in-routine") {
		return "death=definer-tables-unsynchronized"
	}
	return fmt.Sprintf("death=%s frame=%s", death, frame)
}

func c17SplitDash(s string) []string {
	if s == "-" || s == "" {
		return nil
	}
	return strings.Split(s, ",")
}

func c17SortItems(xs []string) string {
	ys := append([]string{}, xs...)
	sort.Strings(ys)
	return strings.Join(ys, ",")
}

func c17Clip(s string, n int) string {
	if len(s) > n {
		return s[:n] + "…"
	}
	return s
}

func c17FirstLines(s string, n int) string {
	lines := strings.Split(strings.TrimSpace(s), "\n")
	if len(lines) > n {
		lines = lines[:n]
	}
	return strings.Join(lines, " / ")
}

var c17BlockedRe = regexp.MustCompile(`(?s)goroutine \d+ \[(sync\.Mutex\.Lock|chan send|chan receive|semacquire|select)[^\]]*\]:\n(.*?)\n\n`)

// the slip frame of a goroutine blocked in a lock (preferred) or a channel operation
func c17BlockedFrame(stacks string) string {
	best, rank := "-", 9
	for _, m := range c17BlockedRe.FindAllStringSubmatch(stacks+"\n\n", -1) {
		f := c17TopSlipFrame(m[2])
		if f == "-" || strings.Contains(f, "c17") {
			continue
		}
		kind := m[1][:strings.IndexAny(m[1]+" ", " ")]
		r := 3
		switch {
		case strings.HasPrefix(m[1], "sync.Mutex") || kind == "semacquire":
			r = 0
		case strings.HasPrefix(m[1], "chan send"):
			r, kind = 1, "chan-send"
		case strings.HasPrefix(m[1], "chan receive"):
			r, kind = 2, "chan-receive"
		}
		if r < rank {
			best, rank = kind+"@"+f, r
		}
	}
	return best
}

func c17ValString(e c17Ev) string {
	if e.S != "" {
		return e.S
	}
	if len(e.A) >= 3 {
		return strconv.FormatInt(e.A[2], 10)
	}
	return ""
}

func c17FormOp(form string) string {
	if strings.Contains(form, "c17r") {
		return "dispatch-race"
	}
	for _, op := range []string{"defflavor", "defclass", "defgeneric", "defstruct", "defmacro", "defun", "format", "*print-pretty*", "*print-base*", "princ-to-string", "defvar", "c17g", "c17fl", "c17f"} {
		if strings.Contains(form, op) {
			return op
		}
	}
	return "form"
}

func c17ParseModel(reply string) map[string]string {
	m := map[string]string{}
	for _, f := range strings.Fields(reply) {
		if k, v, ok := strings.Cut(f, "="); ok {
			m[k] = v
		}
	}
	return m
}

// ---------------------------------------------------------------------------------------------
// the run

func c17Key(p *c17Prog) string {
	b, _ := json.Marshal(p)
	return string(b)
}

// sweep cells: fixed, seed-independent minimal programs, one per construct
func c17Cells() []*c17Case {
	var cells []*c17Case
	mk := func(name string, p *c17Prog) {
		cells = append(cells, &c17Case{Prog: p, Cell: name, Procs: []int{4}})
	}
	counter := func(kind string) *c17Prog {
		p := &c17Prog{Family: "mutex", Shape: "counters", Kinds: []string{kind}, Guards: []int{0}, NMutex: 1}
		for r := 0; r < 4; r++ {
			p.Routines = append(p.Routines, []c17Stmt{c17Rep(150, c17Lock(0, c17Incr(0)))})
		}
		return p
	}
	for _, kind := range []string{"global", "fslot", "cslot", "hash", "let", "wfslot", "wcslot"} {
		mk("counter-"+kind, counter(kind))
	}
	for _, kind := range []string{"global", "fslot", "cslot", "hash", "let"} {
		p := &c17Prog{Family: "mutex", Shape: "burst", Kinds: []string{kind}, Guards: []int{0}, NMutex: 1, Burst: true}
		for r := 0; r < 4; r++ {
			p.Routines = append(p.Routines, []c17Stmt{{Kind: "burst", N: 30000, K: 0}})
		}
		cells = append(cells, &c17Case{Prog: p, Cell: "burst-" + kind, Procs: []int{4, 16, 4}})
	}
	// let-bound counters with the routines started from different kinds of scopes
	for _, sp := range c17Spawns {
		p := &c17Prog{Family: "mutex", Shape: "burst", Kinds: []string{"let"}, Guards: []int{0}, NMutex: 1, Burst: true, Spawn: sp}
		for r := 0; r < 4; r++ {
			p.Routines = append(p.Routines, []c17Stmt{{Kind: "burst", N: 30000, K: 0}})
		}
		cells = append(cells, &c17Case{Prog: p, Cell: "burst-let-" + sp, Procs: []int{4, 16, 4}})
	}
	{
		p := &c17Prog{Family: "mutex", Shape: "burst", Kinds: []string{"ivar"}, Guards: []int{0}, NMutex: 1, Burst: true, Spawn: "method"}
		for r := 0; r < 4; r++ {
			p.Routines = append(p.Routines, []c17Stmt{{Kind: "burst", N: 30000, K: 0}})
		}
		cells = append(cells, &c17Case{Prog: p, Cell: "burst-ivar-method", Procs: []int{4, 16, 4}})
	}
	// every iteration re-enables the synchronized mode of the shared instance
	for _, kind := range []string{"fslot", "cslot"} {
		p := &c17Prog{Family: "mutex", Shape: "burst", Kinds: []string{kind}, Guards: []int{0}, NMutex: 1, Burst: true, Defens: true}
		q := &c17Prog{Family: "sync", Shape: "own-slot-burst", Kinds: []string{kind, kind, kind, kind}, Guards: []int{0, 1, 2, 3}, Burst: true, Defens: true}
		for r := 0; r < 4; r++ {
			p.Routines = append(p.Routines, []c17Stmt{{Kind: "burst", N: 20000, K: 0}})
			q.Routines = append(q.Routines, []c17Stmt{{Kind: "burst", N: 20000, K: r}})
		}
		cells = append(cells, &c17Case{Prog: p, Cell: "burst-" + kind + "-defensive", Procs: []int{4, 16}})
		cells = append(cells, &c17Case{Prog: q, Cell: "burst-own-" + kind + "-defensive", Procs: []int{4, 16}})
	}
	// select: every position of the time-channel clauses relative to the channel clauses
	// (three time channels or nine channels take select's general path)
	for _, pat := range []string{"cc", "tcc", "ctc", "cct", "tctc", "tc", "ct", "ttc", "Tcc", "cTc", "ccT", "tctct", "tttc", "ccccccccc", "tccccccccc", "Kcc", "cKc", "cK"} {
		p := &c17Prog{Family: "chan", Shape: "select", Caps: []int{2, 0}}
		sel := c17Stmt{Kind: "sel"}
		ch := 0
		for i, c := range pat {
			switch c {
			case 'c':
				sel.Chs = append(sel.Chs, ch)
				ch++
			case 't':
				sel.Tpos = append(sel.Tpos, i)
			case 'T':
				sel.Tpos = append(sel.Tpos, i)
				sel.Shrt = true
			case 'K':
				sel.Tpos = append(sel.Tpos, i)
				sel.Shrt, sel.Tick = true, true
			}
		}
		if ch == 1 {
			p.Caps = []int{1}
			p.Routines = [][]c17Stmt{{c17Rep(120, c17Push(0, 0))}, {c17Rep(50, sel)}, {c17Rep(70, sel)}}
		} else if ch > 2 {
			p.Caps = make([]int, ch)
			for i := range p.Caps {
				p.Caps[i] = i % 3
			}
			p.Routines = [][]c17Stmt{{c17Rep(40, c17Push(0, 0))}, {c17Rep(40, c17Push(ch/2, 1000))}, {c17Rep(40, c17Push(ch-1, 2000))}, {c17Rep(50, sel)}, {c17Rep(70, sel)}}
		} else {
			p.Routines = [][]c17Stmt{{c17Rep(60, c17Push(0, 0))}, {c17Rep(60, c17Push(1, 1000))}, {c17Rep(50, sel)}, {c17Rep(70, sel)}}
		}
		cells = append(cells, &c17Case{Prog: p, Cell: "select-" + pat, Procs: []int{4}})
	}
	// objects of every kind through a channel, nil / () / t included, for every kind of consumer
	for _, cons := range []string{"pop", "select", "range", "pop-multi"} {
		kinds := []string{"nil", "", "str", "t", "list", "elist", "sym", "nil"}
		if cons == "pop-multi" {
			kinds = []string{"", "str", "list", "sym"}
		}
		var prod []c17Stmt
		for i := 0; i < 64; i++ {
			prod = append(prod, c17Stmt{Kind: "push", Ch: 0, V: i, Val: kinds[i%len(kinds)]})
		}
		p := &c17Prog{Family: "chan", Shape: "odd-" + cons, Caps: []int{3}}
		switch cons {
		case "pop":
			p.Routines = [][]c17Stmt{prod, {c17Rep(64, c17Pop(0))}}
		case "pop-multi":
			p.Routines = [][]c17Stmt{prod, {c17Rep(24, c17Pop(0))}, {c17Rep(40, c17Pop(0))}}
		case "select":
			p.Routines = [][]c17Stmt{prod, {c17Rep(64, c17Stmt{Kind: "sel", Chs: []int{0}, Tpos: []int{0}})}}
		case "range":
			p.NoModel = true
			p.Routines = [][]c17Stmt{append(prod, c17Stmt{Kind: "close", Ch: 0}), {{Kind: "rangeall", Ch: 0}}}
		}
		cells = append(cells, &c17Case{Prog: p, Cell: "odd-" + cons, Procs: []int{4}})
	}
	{
		p := &c17Prog{Family: "chan", Shape: "range-close", Caps: []int{3}, NoModel: true}
		p.Routines = [][]c17Stmt{{c17Rep(150, c17Push(0, 0)), {Kind: "close", Ch: 0}}, {{Kind: "rangeall", Ch: 0}}, {{Kind: "rangeall", Ch: 0}}}
		cells = append(cells, &c17Case{Prog: p, Cell: "range-close", Procs: []int{4}})
	}
	{
		// several consumers ranging over one buffered channel that is closed by the producer; the
		// callbacks give up the processor, so the consumers interleave item by item
		p := &c17Prog{Family: "chan", Shape: "range-close", Caps: []int{8}, NoModel: true}
		p.Routines = [][]c17Stmt{{c17Rep(200, c17Push(0, 0)), {Kind: "close", Ch: 0}}}
		for w := 0; w < 4; w++ {
			p.Routines = append(p.Routines, []c17Stmt{{Kind: "rangeall", Ch: 0, N: 1}})
		}
		cells = append(cells, &c17Case{Prog: p, Cell: "range-close-multi", Procs: []int{1, 2, 4, 16}})
		// the worker pool: the callbacks block on a small results channel
		q := &c17Prog{Family: "chan", Shape: "range-pool", Caps: []int{8, 2}, NoModel: true}
		q.Routines = [][]c17Stmt{{c17Rep(200, c17Push(0, 0)), {Kind: "close", Ch: 0}}}
		for w := 0; w < 4; w++ {
			q.Routines = append(q.Routines, []c17Stmt{{Kind: "rangeall", Ch: 0, N: 2, Chs: []int{1}}})
		}
		q.Routines = append(q.Routines, []c17Stmt{c17Rep(200, c17Pop(1))})
		cells = append(cells, &c17Case{Prog: q, Cell: "range-pool", Procs: []int{1, 4, 16}})
	}
	for _, cp := range []int{0, 1, 8} {
		p := &c17Prog{Family: "chan", Shape: "fan", Caps: []int{cp}}
		p.Routines = [][]c17Stmt{{c17Rep(150, c17Push(0, 0))}, {c17Rep(150, c17Push(0, 1000))}, {c17Rep(100, c17Pop(0))}, {c17Rep(200, c17Pop(0))}}
		mk(fmt.Sprintf("fifo-cap%d", cp), p)
	}
	{
		p := &c17Prog{Family: "mutex", Shape: "exits", Kinds: []string{"global"}, Guards: []int{0}, NMutex: 1}
		for r := 0; r < 3; r++ {
			ret := c17Lock(0, c17Incr(0))
			ret.Ret = true
			p.Routines = append(p.Routines, []c17Stmt{c17Rep(60, c17Hand(c17Lock(0, c17Incr(0), c17Fail)), ret, c17Lock(0, c17Incr(0)))})
		}
		mk("exit-error-return", p)
	}
	{
		p := &c17Prog{Family: "sync", Shape: "own-slot", Kinds: []string{"fslot", "fslot", "fslot"}, Guards: []int{0, 1, 2}}
		for r := 0; r < 3; r++ {
			p.Routines = append(p.Routines, []c17Stmt{c17Rep(200, c17Incr(r))})
		}
		mk("sync-flavor-slots", p)
		q := &c17Prog{Family: "sync", Shape: "own-slot", Kinds: []string{"cslot", "cslot", "cslot"}, Guards: []int{0, 1, 2}}
		q.Routines = p.Routines
		mk("sync-clos-slots", q)
		for _, kind := range []string{"fslot", "cslot", "global"} {
			b := &c17Prog{Family: "sync", Shape: "own-slot-burst", Kinds: []string{kind, kind, kind, kind}, Guards: []int{0, 1, 2, 3}, Burst: true}
			for r := 0; r < 4; r++ {
				b.Routines = append(b.Routines, []c17Stmt{{Kind: "burst", N: 30000, K: r}})
			}
			cells = append(cells, &c17Case{Prog: b, Cell: "burst-own-" + kind, Procs: []int{4, 16}})
		}
	}
	// printing from several routines at once (pretty printer, format directives, print variables)
	{
		p := &c17Prog{Family: "tables", Shape: "print"}
		for r := 0; r < 4; r++ {
			var forms []string
			for i := 0; i < 120; i++ {
				id := fmt.Sprintf("%d-%d", r, i)
				switch i % 4 {
				case 0:
					// nesting grows with i in every routine at the same pace, from a few levels to
					// far beyond the default right margin (indentation of 1 .. 150 columns and more);
					// narrow and wide right margins alternate. No routine and no prelude form prints
					// anything deep before: whatever the printer keeps between calls is first
					// needed (and grown) by several routines at about the same time.
					margin := 8 + (i*7+r)%25
					if (i/4)%3 == 2 {
						margin = 90 + (i*13+r*29)%200
					}
					forms = append(forms, c17PrettyForm(id, 1+i+i/8, margin, (i/4+r)%3))
				case 1:
					forms = append(forms, fmt.Sprintf("(format nil \"~A|~D|~S|~5,'0D|~X|~R\" 'sym-%s %d \"s%d\" %d %d %d)", id, i, i, i, i*31, i))
				case 2:
					forms = append(forms, fmt.Sprintf("(let ((*print-base* %d) (*print-radix* t)) (write-to-string %d))", []int{2, 8, 16, 36}[(i/4+r)%4], i*7919+r))
				default:
					forms = append(forms, fmt.Sprintf("(princ-to-string (list %d 'q-%s \"x\" #\\a (/ %d 7) %d.5))", i, id, i+1, i))
				}
			}
			p.Tables = append(p.Tables, forms)
		}
		cells = append(cells, &c17Case{Prog: p, Cell: "print", Procs: []int{4, 16}})
	}
	// generic dispatch from several routines at once with argument types not seen before: all
	// routines walk through the same generic functions in the same order, so they fill the same
	// dispatch caches at about the same time
	{
		var pre strings.Builder
		for g := 0; g < 24; g++ {
			fmt.Fprintf(&pre, "(defgeneric c17d%d (a))\n(defmethod c17d%d ((a t)) (list 'any-%d))\n(defmethod c17d%d ((a fixnum)) (list 'fix-%d))\n(c17d%d 1)\n(c17d%d nil)\n", g, g, g, g, g, g, g)
		}
		p := &c17Prog{Family: "tables", Shape: "dispatch", Prelude: pre.String()}
		ys := []string{"\"s\"", "'sym", "1.5", "(list 1 2)", "#\\a", "t", "1/3", "#(1 2)", "12345678901234567890", "(make-hash-table)", "(make-mutex)", ":key"}
		for r := 0; r < 4; r++ {
			var forms []string
			for i := 0; i < 24*len(ys); i++ {
				forms = append(forms, fmt.Sprintf("(car (c17d%d %s))", i%24, ys[i/24]))
			}
			p.Tables = append(p.Tables, forms)
		}
		cells = append(cells, &c17Case{Prog: p, Cell: "dispatch", Procs: []int{4, 16}})
	}
	// methods added, redefined and removed on generic functions that other routines are calling
	{
		p := c17GenDispatchRace(lib.NewRng(17), 60, 200, 2, 6)
		cells = append(cells, &c17Case{Prog: p, Cell: "dispatch-race", Procs: []int{4, 16, 2, 8, 4, 16}})
	}
	// new global variables from several routines at once (the package's variable table)
	{
		p := &c17Prog{Family: "tables", Shape: "defvar"}
		for r := 0; r < 4; r++ {
			var forms []string
			for i := 0; i < 300; i++ {
				forms = append(forms, fmt.Sprintf("(progn (defvar *dv-%d-%d* %d) (setq *dw-%d-%d* %d) (+ *dv-%d-%d* *dw-%d-%d*))", r, i, i, r, i, r, r, i, r, i))
			}
			p.Tables = append(p.Tables, forms)
		}
		cells = append(cells, &c17Case{Prog: p, Cell: "defvar", Procs: []int{4, 16}})
	}
	// defining functions (writes to the package's function table) while other routines evaluate
	definers := map[string]string{
		"defun":      "(progn (defun tf-%[1]s (x) (+ x %[2]d)) (tf-%[1]s 1))",
		"defmacro":   "(progn (defmacro tm-%[1]s (x) (list '+ x %[2]d)) (tm-%[1]s 1))",
		"defgeneric": "(progn (defgeneric tg-%[1]s (x)) (defmethod tg-%[1]s ((x fixnum)) (+ x %[2]d)) (tg-%[1]s 1))",
		"defclass":   "(progn (defclass tc-%[1]s () ((s :initform %[2]d :accessor tc-%[1]s-s))) (tc-%[1]s-s (make-instance 'tc-%[1]s)))",
		"defstruct":  "(progn (defstruct ts-%[1]s (a %[2]d)) (ts-%[1]s-a (make-ts-%[1]s)))",
		"defflavor":  "(progn (defflavor tfl-%[1]s ((x %[2]d)) () :gettable-instance-variables) (defmethod (tfl-%[1]s :bump) (d) (+ x d)) (send (make-instance 'tfl-%[1]s) :bump 1))",
	}
	dnames := make([]string, 0, len(definers))
	for k := range definers {
		dnames = append(dnames, k)
	}
	sort.Strings(dnames)
	for _, name := range dnames {
		p := &c17Prog{Family: "tables", Shape: "define-" + name}
		for r := 0; r < 4; r++ {
			var forms []string
			for i := 0; i < 150; i++ {
				forms = append(forms, fmt.Sprintf(definers[name], fmt.Sprintf("%d-%d", r, i), r*1000+i))
			}
			p.Tables = append(p.Tables, forms)
		}
		cells = append(cells, &c17Case{Prog: p, Cell: "define-" + name, Procs: []int{4, 16}})
	}
	return cells
}

// race-only sweep cells: constructs that share un-evaluated code between routines
func c17RaceCells() []*c17Case {
	var cells []*c17Case
	base := func() *c17Prog {
		p := &c17Prog{Family: "mutex", Shape: "counters", Kinds: []string{"global"}, Guards: []int{0}, NMutex: 1}
		for r := 0; r < 3; r++ {
			p.Routines = append(p.Routines, []c17Stmt{c17Rep(20, c17Lock(0, c17Incr(0)))})
		}
		return p
	}
	p := base()
	p.Shared = true
	cells = append(cells, &c17Case{Prog: p, Cell: "shared-run-form", Procs: []int{4}, Race: true})
	q := base()
	q.Defun = true
	cells = append(cells, &c17Case{Prog: q, Cell: "shared-defun-first-call", Procs: []int{4}, Race: true})
	return cells
}

func c17Generate(c *lib.Ctx) []*c17Case {
	rng := c.Rng
	maxOps := c.Scale(60, 200)
	n := c.Scale(600, 1500)
	procsAll := []int{1, 2, 4, 16}
	var cases []*c17Case
	listedLet := c.Findings.Listed("C17", "cell=counter-let ") || c.Findings.Listed("C17", "cell=burst-let ")
	listedDefine := c.Findings.Listed("C17", "cell=define-")
	listedCold := c.Findings.Listed("C17", "cell=shared-")
	for i := 0; i < n; i++ {
		var p *c17Prog
		ops := 1 + rng.Intn(maxOps)
		if rng.Chance(15) {
			ops = maxOps
		}
		kinds := []string{"global", "fslot", "cslot", "hash", "let"}
		if listedLet {
			kinds = kinds[:4]
		}
		switch rng.Intn(13) {
		case 10, 11:
			p = c17GenSelect(rng, ops)
		case 12:
			if rng.Bool() {
				p = c17GenRangeClose(rng, ops)
			} else {
				p = c17GenDispatchRace(rng, 2+rng.Intn(min(ops, 40)), 1+rng.Intn(min(ops, 120)), 1+rng.Intn(3), 2+rng.Intn(5))
			}
		case 0, 1:
			p = c17GenFan(rng, ops, false)
		case 2:
			p = c17GenPipeline(rng, ops)
		case 3:
			p = c17GenRoundRobin(rng, ops)
		case 4, 5:
			p = c17GenMutex(rng, ops, kinds)
		case 6:
			p = c17GenFan(rng, min(ops, 60), true)
		case 7:
			p = c17GenSync(rng, ops)
		default:
			p = c17GenTables(rng, min(ops, 60), !listedDefine, listedCold)
		}
		if (p.Family == "chan" || p.Family == "mixed") && rng.Chance(60) {
			c17OddValues(rng, p)
		}
		cs := &c17Case{Prog: p}
		if c.Thorough() {
			cs.Procs = procsAll
		} else {
			a := rng.Intn(4)
			b := (a + 1 + rng.Intn(3)) % 4
			cs.Procs = []int{procsAll[a], procsAll[b]}
		}
		cases = append(cases, cs)
	}
	return cases
}

func c17Replay(c *lib.Ctx, self string) {
	var rec struct {
		Prog  c17Prog `json:"program"`
		Cell  string  `json:"cell"`
		Procs int     `json:"gomaxprocs"`
		Race  bool    `json:"race"`
		Sig   string  `json:"signature"`
	}
	if err := lib.ReadJSON(c.Replay, &rec); err != nil {
		fmt.Println("cannot read replay file:", err)
		return
	}
	cs := &c17Case{Prog: &rec.Prog, Cell: rec.Cell, Procs: []int{rec.Procs}, Race: rec.Race}
	bin := self
	if rec.Race {
		rb, err := c17BuildRace(c)
		if err != nil {
			fmt.Println("replay needs the -race worker, which could not be built:", err)
			os.Exit(2)
		}
		bin = rb
	}
	fmt.Printf("replay %s (GOMAXPROCS=%d, up to 12 attempts; the schedule is chosen by the Go runtime)\n", rec.Sig, rec.Procs)
	for attempt := 0; attempt < 12; attempt++ {
		vs := c17RunCase(c, cs, bin, rec.Procs, uint64(attempt)+1)
		for _, v := range vs {
			if v.Sig == rec.Sig || attempt == 11 {
				fmt.Printf("  attempt %d: %s\n  observed: %s\n  expected: %s\n", attempt+1, v.Sig, c17Clip(v.Observed, 1500), v.Expected)
				c.Report(v.Sig, false, map[string]any{"observed": v.Observed, "expected": v.Expected})
				return
			}
		}
		if len(vs) > 0 {
			fmt.Printf("  attempt %d: other signature %s\n", attempt+1, vs[0].Sig)
			c.Report(vs[0].Sig, false, map[string]any{"observed": vs[0].Observed, "expected": vs[0].Expected})
			return
		}
	}
	fmt.Println("  12 attempts passed all checks")
}

// closeModel runs Model/Close.lean for every channel of the program that is closed by a producer
// and drained by range consumers (shapes range-close, range-pool, odd-range).
func (p *c17Prog) closeModel(c *lib.Ctx, seed uint64) map[string]string {
	type info struct {
		closed    bool
		pushes    map[int]int
		consumers int
	}
	chans := map[int]*info{}
	get := func(ch int) *info {
		if chans[ch] == nil {
			chans[ch] = &info{pushes: map[int]int{}}
		}
		return chans[ch]
	}
	for t, ss := range p.threads() {
		c17Walk(c17Expand(ss), func(s c17Stmt) {
			switch s.Kind {
			case "push":
				get(s.Ch).pushes[t]++
			case "close":
				get(s.Ch).closed = true
			case "rangeall":
				get(s.Ch).consumers++
			}
		})
	}
	var reqs []string
	var chs []int
	for ch := range p.Caps {
		in := chans[ch]
		if in == nil || !in.closed || in.consumers == 0 {
			continue
		}
		var prods []int
		for t := range in.pushes {
			prods = append(prods, t)
		}
		sort.Ints(prods)
		counts := make([]int, len(prods))
		for i, t := range prods {
			counts[i] = in.pushes[t]
		}
		reqs = append(reqs, fmt.Sprintf("conc close %d %d %d 4000000 %s", p.Caps[ch], in.consumers, seed%1000000007, c17Join(counts)))
		chs = append(chs, ch)
	}
	out := map[string]string{}
	for i, rep := range c.Model(reqs) {
		m := c17ParseModel(rep)
		if !strings.HasPrefix(rep, "ok ") || m["ended"] != strconv.Itoa(chans[chs[i]].consumers) || m["exact"] != "1" || m["left"] != "0" {
			fmt.Fprintf(os.Stderr, "c17: close/range model run did not drain (harness bug): %s -> %s\n", reqs[i], rep)
			os.Exit(2)
		}
		out[fmt.Sprintf("close%d.received", chs[i])] = m["received"]
		out[fmt.Sprintf("close%d.left", chs[i])] = m["left"]
	}
	return out
}

// c17RunCase runs one program once at the given GOMAXPROCS and returns the verdicts.
func c17RunCase(c *lib.Ctx, cs *c17Case, bin string, procs int, yieldSeed uint64) []c17Verdict {
	p := cs.Prog
	var model map[string]string
	var seq map[[2]int64]string
	if p.Family == "tables" {
		ref := c17ExecSettled(bin, 1, p.source(true), yieldSeed, 60, 5*time.Minute, false)
		if ref.Timeout {
			// the sequential reference run of a small program did not finish even when run alone with
			// three times the limit: the machine, not slip
			fmt.Fprintln(os.Stderr, "c17: sequential reference run timed out twice (machinery)")
			os.Exit(2)
		}
		if ref.Res == nil || !ref.Res.Ok {
			return []c17Verdict{{"family=tables sequential-reference-failed", c17FirstLines(ref.Stderr, 5) + fmt.Sprint(ref.Res), "sequential run completes"}}
		}
		seq = map[[2]int64]string{}
		for _, e := range ref.Res.Trace {
			if e.T == "val" && len(e.A) >= 2 {
				seq[[2]int64{e.A[0], e.A[1]}] = c17ValString(e)
			}
		}
	} else if !p.Shared && !p.Defun && !p.Burst && !p.NoModel {
		model = c17ParseModel(c.Model([]string{p.modelRequest(yieldSeed)})[0])
		if model["q"] != "1" || model["guarded"] != "1" || model["distinct"] != "1" || model["fifo"] != "pass" || model["mutex"] != "pass" || model["counter"] != "pass" {
			fmt.Fprintf(os.Stderr, "c17: generated program rejected by the model (harness bug): %v\n%s\n", model, c17Clip(p.modelRequest(yieldSeed), 2000))
			os.Exit(2)
		}
	}
	if p.NoModel && !p.Shared && !p.Defun {
		model = p.closeModel(c, yieldSeed)
	}
	deadline := 2 * time.Minute
	if cs.Race || p.Burst {
		deadline = 6 * time.Minute
	}
	run := c17ExecSettled(bin, procs, p.source(false), yieldSeed, 30, deadline, cs.Race)
	return c17CheckRun(c, cs, run, model, seq)
}

var c17RaceOnce sync.Once
var c17RaceBin string
var c17RaceErr error

// c17BuildRace builds this harness with -race (the sources check.py prepared in .work/harness-src).
func c17BuildRace(c *lib.Ctx) (string, error) {
	c17RaceOnce.Do(func() {
		src := filepath.Join(c.Root, ".work", "harness-src")
		if alt := os.Getenv("VERIF_WORK"); alt != "" {
			src = filepath.Join(alt, "harness-src")
		}
		out := filepath.Join(c.OutDir, "vh-race")
		cmd := exec.Command("go", "build", "-race", "-tags", "verif", "-o", out, "./cmd/vh")
		cmd.Dir = src
		env := []string{}
		for _, e := range os.Environ() {
			if strings.HasPrefix(e, "GOSUMDB=") || e == "GOTOOLCHAIN=local" || strings.HasPrefix(e, "GOFLAGS=") || strings.HasPrefix(e, "GOPROXY=") || strings.HasPrefix(e, "GOMEMLIMIT=") {
				continue
			}
			env = append(env, e)
		}
		cmd.Env = append(env, "GOFLAGS=-mod=mod", "GOPROXY=off", "CGO_ENABLED=1")
		if b, err := cmd.CombinedOutput(); err != nil {
			c17RaceErr = fmt.Errorf("%v: %s", err, c17Clip(string(b), 800))
			return
		}
		c17RaceBin = out
	})
	return c17RaceBin, c17RaceErr
}

func runC17(c *lib.Ctx) {
	self, err := os.Executable()
	if err != nil {
		fmt.Fprintln(os.Stderr, "c17: cannot find own executable:", err)
		os.Exit(2)
	}
	if c.Replay != "" {
		c17Replay(c, self)
		return
	}
	type job struct {
		cs    *c17Case
		procs int
		bin   string
		seed  uint64
	}
	var jobs []job
	// VERIF_C17_REPEAT=n repeats the sweep cells n times (used to collect the signatures a cell can
	// produce on a given tree; not used by the registered commands)
	repeat := 1
	if v, err := strconv.Atoi(os.Getenv("VERIF_C17_REPEAT")); err == nil && v > 1 {
		repeat = v
	}
	if c.GenBroken != "" && repeat < 3 {
		// an obligation over the regenerated structure of the primitives no longer checks: search a
		// failing input harder (the sweep cells isolate the constructs the obligations are about)
		repeat = 3
		c.Ev.Coverage["witness_search_for_broken_obligation"] = c.GenBroken
	}
	// VERIF_C17_ONLY=<prefix> runs only the sweep cells whose name starts with the prefix and no
	// composite programs (development aid; not used by the registered commands)
	only := os.Getenv("VERIF_C17_ONLY")
	for rep := 0; rep < repeat; rep++ {
		for _, cs := range c17Cells() {
			if only != "" && !strings.HasPrefix(cs.Cell, only) {
				continue
			}
			for _, pr := range cs.Procs {
				jobs = append(jobs, job{cs, pr, self, uint64(rep + 1)})
			}
		}
	}
	for _, cs := range c17Generate(c) {
		if only != "" {
			break
		}
		for _, pr := range cs.Procs {
			jobs = append(jobs, job{cs, pr, self, c.Rng.U64()})
		}
	}
	raceAvail := "not run in the quick tier"
	if c.Thorough() {
		if rb, err := c17BuildRace(c); err != nil {
			raceAvail = "go build -race failed: " + err.Error()
			fmt.Fprintln(os.Stderr, "c17: -race worker unavailable:", err)
		} else {
			raceAvail = "yes"
			for rep := 0; rep < repeat; rep++ {
				for _, cs := range c17RaceCells() {
					jobs = append(jobs, job{cs, []int{4, 2, 16}[rep%3], rb, uint64(rep + 1)})
				}
			}
			for rep := 0; rep < repeat; rep++ {
				for _, cs := range c17Cells() {
					if strings.HasPrefix(cs.Cell, "define-") && c.Findings.Listed("C17", "cell="+cs.Cell+" ") {
						continue // dies with a listed fatal error anyway; the race detector adds nothing
					}
					rc := *cs
					rc.Race = true
					jobs = append(jobs, job{&rc, []int{4, 16, 2}[rep%3], rb, uint64(rep + 1)})
				}
			}
			// composite programs under the race detector: every routine has its own code
			sub := lib.NewRng(c.Seed ^ 0xC17)
			saved := c.Rng
			c.Rng = sub
			gen := c17Generate(c)
			c.Rng = saved
			listedRedef := c.Findings.Listed("C17", "cell=dispatch-race race ")
			for i, cs := range gen {
				if i >= 300 {
					break
				}
				if listedRedef && cs.Prog.Shape == "dispatch-race" {
					// redefining a method while it is being called is a listed race (the method object
					// is updated in place): composite programs stay away from it under the race detector
					continue
				}
				rc := *cs
				rc.Race = true
				jobs = append(jobs, job{&rc, []int{2, 4, 16}[i%3], rb, sub.U64()})
			}
		}
	}
	c.Ev.Coverage["race_detector"] = raceAvail

	type result struct {
		j  job
		vs []c17Verdict
		d  time.Duration
	}
	results := make([]result, len(jobs))
	var hangs, skipped atomic.Int32
	var wg sync.WaitGroup
	const slots = 4
	sem := make(chan struct{}, slots)
	var aloneMu sync.Mutex
	c17Alone = func(f func()) {
		// called from a job goroutine that holds one slot: give it back first (two jobs wanting to
		// be alone must not wait for each other's slot), then take them all
		<-sem
		aloneMu.Lock()
		for i := 0; i < slots; i++ {
			sem <- struct{}{}
		}
		f()
		for i := 0; i < slots; i++ {
			<-sem
		}
		aloneMu.Unlock()
		sem <- struct{}{}
	}
	for i := range jobs {
		wg.Add(1)
		sem <- struct{}{}
		go func(i int) {
			defer wg.Done()
			defer func() { <-sem }()
			if 3 <= hangs.Load() {
				// several programs hung already (each costs the stall period): the verdict is
				// settled, the remaining programs are not run
				skipped.Add(1)
				results[i] = result{jobs[i], nil, -1}
				return
			}
			start := time.Now()
			vs := c17RunCase(c, jobs[i].cs, jobs[i].bin, jobs[i].procs, jobs[i].seed)
			for _, v := range vs {
				if strings.Contains(v.Sig, " hang=") {
					hangs.Add(1)
				}
			}
			results[i] = result{jobs[i], vs, time.Since(start)}
		}(i)
	}
	wg.Wait()

	validated, sampleNo := 0, 0
	c.Ev.Coverage["skipped_after_hangs"] = int(skipped.Load())
	c.Ev.Coverage["transient_outcomes_rerun_alone"] = int(c17Retried.Load())
	for _, r := range results {
		if r.d < 0 {
			continue
		}
		p := r.j.cs.Prog
		nthreads := len(p.threads())
		if p.Family == "tables" {
			nthreads = len(p.Tables)
		}
		key := fmt.Sprintf("%s|procs=%d|race=%v", c17Key(p), r.j.procs, r.j.cs.Race)
		c.Ev.Case(key, nthreads >= 2)
		c.Ev.Hist("family", p.Family+"/"+p.Shape)
		c.Ev.Hist("gomaxprocs", strconv.Itoa(r.j.procs))
		c.Ev.Hist("routines", strconv.Itoa(nthreads))
		if r.j.cs.Race {
			c.Ev.Count("race_runs", 1)
		}
		for _, cp := range p.Caps {
			c.Ev.Hist("capacity", strconv.Itoa(cp))
		}
		for _, k := range p.Kinds {
			c.Ev.Hist("counter_kind", k)
		}
		if len(r.vs) == 0 {
			validated++
		}
		if sampleNo++; sampleNo%101 == 1 || len(r.vs) > 0 {
			c.Ev.Sample(map[string]any{"family": p.Family, "shape": p.Shape, "gomaxprocs": r.j.procs, "cell": r.j.cs.Cell,
				"source": c17Clip(p.source(false), 700), "verdicts": len(r.vs), "wall_ms": r.d.Milliseconds()})
		}
		for _, v := range r.vs {
			c.Ev.Count("disagreements_checked", 1)
			c.Report(v.Sig, r.j.cs.Cell != "", map[string]any{
				"program": p, "cell": r.j.cs.Cell, "gomaxprocs": r.j.procs, "race": r.j.cs.Race,
				"input": c17Clip(p.source(false), 6000), "observed": c17Clip(v.Observed, 3000), "expected": v.Expected,
				"expected_from": "model:conc checkers / sequential run",
				"relies_on":     []string{"SlipVerif.Conc.exec_fifoOk", "SlipVerif.Conc.exec_mutexOk", "SlipVerif.Conc.exec_counterOk", "SlipVerif.Conc.no_lost_update", "SlipVerif.Lin.linCheck_sound"},
			})
		}
	}
	if _, ok := c.Ev.Coverage["disagreements_checked"]; !ok {
		c.Ev.Coverage["disagreements_checked"] = 0
	}
	c.Ev.Coverage["traces_validated_against_impl"] = validated
	c.Ev.Coverage["rule"] = "case = (program, GOMAXPROCS, race build); programs: fixed sweep cells (one per construct) + seeded random programs of the families chan(fan|pipeline|roundrobin), mutex, mixed, sync, tables with <= 8 routines x <= 200 operations; non-trivial = at least 2 threads contend; distinct by (program, GOMAXPROCS, race)"
	c.Ev.Coverage["explanation"] = "Level other: Lean theorems for every schedule of an abstract interleaving model (FIFO/exactly-once, mutual exclusion, no lost update) and proved history checkers; the real interpreter is explored: generated concurrent programs run in worker subprocesses under GOMAXPROCS 1/2/4/16 with yield perturbation (thorough tier also under the Go race detector), the recorded histories are decided by the proved checkers, final states are compared with a model run, table/printing routines with a sequential run. The schedules actually taken are chosen by the Go runtime and are not enumerated."
}
