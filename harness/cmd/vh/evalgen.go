package main

// Typed program generator over the core forms of C01 (and, with ctl=true, the control forms of
// C07). Programs are generated as text. Types: int, list of int, boolean. Every generated
// subexpression may be wrapped in the trace primitive (vtr e), so every evaluated position carries
// side effects whose order and count are compared.
//
// What the generator deliberately avoids (see notes/C01.md, notes/C07.md):
//   * a variable name captured by a closure is never rebound while the closure can be called
//     (closure mode: all binding names unique; shadow mode: names re-used, no lambda)   [C01 finding]
//   * (values …) only directly under multiple-value-bind / multiple-value-list           [C01 finding]
//   * funcall with zero arguments, literal nil as a list argument of mapcar              [C04/C14]
//   * exits are only placed where every intervening (form, position) cell of the single-cause
//     sweep passes on the unchanged tree (g.avoid consults findings/C07.json)            [C07 findings]
//   * arithmetic that could leave the fixnum range is bounded by loop budgets; a program whose
//     model run leaves the range is set aside (C05's business)

import (
	"fmt"
	"strings"

	"verif/harness/lib"
)

const (
	tI = iota // integer
	tL        // list of integers
	tB        // generalised boolean (only used as a test)
)

type gvar struct {
	name string
	typ  int
	ro   bool // must not be assigned (loop counters, recursion counters)
	fn   int  // >0: holds a function of that many integer arguments returning an integer
}

type gfun struct {
	name  string
	arity int
}

type gtarget struct {
	name string
	ok   bool   // every intervening cell forwards the exit on the unchanged tree
	kind string // ret-from | ret-nil | go-fwd | go-back
}

type evGen struct {
	r       *lib.Rng
	prefix  string // unique per case (interpreter state is global)
	n       int
	vars    []gvar
	funs    []gfun
	targets []gtarget
	ctl     bool
	shadow  bool
	inFn    bool // inside a lambda / defun body
	inDefun bool // inside a defun body
	noBare  bool // variables are referenced as (vtr v), never as a bare symbol (C01 finding dlambda.in-*)
	eager   bool // inside a form that slip compiles early in another scope (step forms of do / do*)
	held    [evNMutex]bool
	trn     int
	iter    int // product of the iteration bounds of the enclosing loops
	size    int // budget of remaining nodes
	avoid   func(cell, exit string) bool
	hist    map[string]int
	globals []gvar
	makers  []gfun // defuns returning a closure over their parameter: (name c) yields a function of `arity` arguments
	self    *gself // inside the body of a recursive defun: the function may call itself with a smaller counter
}

type gself struct {
	name  string
	n     string   // the counter parameter (never assigned, never shadowed)
	rest  []string // the other parameters
	sites int      // self calls generated so far
	iter  int      // g.iter of the function body: no self call inside a loop
}

func (g *evGen) count(k string) { g.hist[k]++ }

func (g *evGen) fresh(stem string) string {
	g.n++
	if g.shadow && stem != "f" && stem != "g" {
		// shadow mode: a small pool so that inner bindings shadow outer ones
		return fmt.Sprintf("%s%d", stem, g.r.Intn(3))
	}
	return fmt.Sprintf("%s%s%d", stem, g.prefix, g.n)
}

// freshIn returns a fresh name not yet in used (names of one binding list must be distinct)
func (g *evGen) freshIn(stem string, used map[string]bool) string {
	for {
		nm := g.fresh(stem)
		if !used[nm] {
			used[nm] = true
			return nm
		}
		if g.shadow {
			// pool exhausted: fall back to a unique name
			g.n++
			nm = fmt.Sprintf("%s%s%d", stem, g.prefix, g.n)
			used[nm] = true
			return nm
		}
	}
}

func (g *evGen) tr() string {
	g.trn++
	return fmt.Sprintf("%d", 100+g.trn)
}

// wrap possibly wraps e in the trace primitive
func (g *evGen) wrap(e string) string {
	if g.r.Chance(30) {
		return "(vtr " + e + ")"
	}
	return e
}

// enter descends into position cell: targets whose exit would not be forwarded from there on the
// unchanged tree become unreachable. Returns the function restoring the previous state.
func (g *evGen) enter(cell string) func() {
	saved := g.targets
	if len(saved) > 0 {
		nt := make([]gtarget, len(saved))
		copy(nt, saved)
		for i := range nt {
			if nt[i].ok && g.avoid(cell, nt[i].kind) {
				nt[i].ok = false
			}
		}
		g.targets = nt
	}
	return func() { g.targets = saved }
}

func (g *evGen) sub(cell string, f func() string) string {
	restore := g.enter(cell)
	defer restore()
	return f()
}

func (g *evGen) withVars(vs []gvar, f func() string) string {
	saved := g.vars
	g.vars = append(append([]gvar{}, saved...), vs...)
	defer func() { g.vars = saved }()
	return f()
}

func (g *evGen) pickVar(typ int, assignable bool) (gvar, bool) {
	var cand []gvar
	seen := map[string]bool{}
	for i := len(g.vars) - 1; i >= 0; i-- {
		v := g.vars[i]
		if seen[v.name] {
			continue // shadowed
		}
		seen[v.name] = true
		if v.typ == typ && v.fn == 0 && (!assignable || !v.ro) {
			cand = append(cand, v)
		}
	}
	if !g.inFn || true {
		for _, v := range g.globals {
			if !seen[v.name] && v.typ == typ && (!assignable || !v.ro) {
				cand = append(cand, v)
			}
		}
	}
	if len(cand) == 0 {
		return gvar{}, false
	}
	return cand[g.r.Intn(len(cand))], true
}

func (g *evGen) pickGlobal() (gvar, bool) {
	if len(g.globals) == 0 {
		return gvar{}, false
	}
	return g.globals[g.r.Intn(len(g.globals))], true
}

func (g *evGen) pickFnVar(arity int) (gvar, bool) {
	var cand []gvar
	seen := map[string]bool{}
	for i := len(g.vars) - 1; i >= 0; i-- {
		v := g.vars[i]
		if seen[v.name] {
			continue
		}
		seen[v.name] = true
		if v.fn == arity {
			cand = append(cand, v)
		}
	}
	if len(cand) == 0 {
		return gvar{}, false
	}
	return cand[g.r.Intn(len(cand))], true
}

func (g *evGen) lit() string {
	return fmt.Sprintf("%d", g.r.Intn(9)-2)
}

func (g *evGen) expr(t, d int) string {
	g.size--
	raw := func() string {
		switch t {
		case tI:
			return g.intExpr(d)
		case tL:
			return g.listExpr(d)
		}
		return g.boolExpr(d)
	}
	if g.r.Chance(30) {
		// traced: the expression becomes an argument of the call (vtr …)
		return "(vtr " + g.sub("call.arg", raw) + ")"
	}
	return raw()
}

func (g *evGen) leaf(t int) string {
	switch t {
	case tI:
		if v, ok := g.pickVar(tI, false); ok && g.r.Chance(60) {
			if g.noBare {
				return "(vtr " + v.name + ")"
			}
			return v.name
		}
		return g.lit()
	case tL:
		if v, ok := g.pickVar(tL, false); ok && g.r.Chance(60) {
			if g.noBare {
				return "(vtr " + v.name + ")"
			}
			return v.name
		}
		switch g.r.Intn(3) {
		case 0:
			return "(list)"
		case 1:
			return fmt.Sprintf("(quote (%s %s))", g.lit(), g.lit())
		}
		return fmt.Sprintf("(list %s %s %s)", g.lit(), g.lit(), g.lit())
	}
	if v, ok := g.pickVar(tI, false); ok && g.r.Chance(50) {
		return fmt.Sprintf("(< %s %s)", v.name, g.lit())
	}
	return g.r.Pick([]string{"t", "nil", "(< 1 2)", "(= 1 2)"})
}

// seq generates n statements followed by a value expression of type t; cell names the form.
func (g *evGen) seq(cell string, t, d, maxStmts int) string {
	n := g.r.Intn(maxStmts + 1)
	var parts []string
	for i := 0; i < n; i++ {
		parts = append(parts, g.sub(cell+".body", func() string { return g.stmt(d - 1) }))
	}
	parts = append(parts, g.sub(cell+".last", func() string { return g.expr(t, d-1) }))
	return strings.Join(parts, " ")
}

func (g *evGen) stmt(d int) string {
	g.size--
	if g.ctl && d >= 0 && g.r.Chance(14) {
		// an exit as a statement, when some target is reachable from here
		for _, tg := range g.targets {
			if tg.ok {
				return g.exitOrCtlKind(tI, max(d, 1), 0)
			}
		}
	}
	if d <= 0 || g.size <= 0 {
		return "(vtr " + g.tr() + ")"
	}
	switch g.r.Intn(13) {
	case 12:
		// the rest lists of all calls mapcar makes, collected and traced as a whole: each call has its own list
		g.count("rest-collect")
		rn := g.fresh("r")
		return fmt.Sprintf("(vtr (mapcar (lambda (&rest %s) %s) %s %s))", rn, rn,
			g.sub("call.arg", func() string { return g.sub("mapcar.list", func() string { return g.expr(tL, d-1) }) }),
			g.sub("call.arg", func() string { return g.sub("mapcar.list", func() string { return g.expr(tL, d-1) }) }))
	case 0, 1, 2:
		return "(vtr " + g.tr() + ")"
	case 3, 4:
		if v, ok := g.pickVar(tI, true); ok {
			g.count("setq")
			return fmt.Sprintf("(setq %s %s)", v.name, g.sub("setq.value", func() string { return g.expr(tI, d-1) }))
		}
		return g.expr(tI, d)
	case 5:
		if v, ok := g.pickVar(tL, true); ok {
			g.count("setq")
			return fmt.Sprintf("(setq %s %s)", v.name, g.sub("setq.value", func() string { return g.expr(tL, d-1) }))
		}
		return g.expr(tL, d)
	case 6:
		g.count("when")
		form := g.r.Pick([]string{"when", "unless"})
		return fmt.Sprintf("(%s %s %s)", form, g.sub(form+".test", func() string { return g.expr(tB, d-1) }), g.seq(form, tI, d, 2))
	case 7:
		return g.loopExpr(d, true)
	case 8:
		if g.ctl {
			return g.exitOrCtl(tI, d)
		}
		return g.expr(tI, d)
	case 9:
		if v, ok := g.pickGlobal(); ok {
			g.count("setq-global")
			return fmt.Sprintf("(setq %s %s)", v.name, g.sub("setq.value", func() string { return g.expr(tI, d-1) }))
		}
		return g.expr(tI, d)
	}
	return g.expr([]int{tI, tL, tB}[g.r.Intn(3)], d)
}

func (g *evGen) intExpr(d int) string {
	if d <= 0 || g.size <= 0 {
		return g.leaf(tI)
	}
	switch k := g.r.Intn(34); k {
	case 0, 1:
		return g.leaf(tI)
	case 2, 3:
		op := g.r.Pick([]string{"+", "-", "+", "-", "*"})
		if op == "*" && g.iter > 1 {
			op = "+"
		}
		n := 2 + g.r.Intn(2)
		args := make([]string, n)
		for i := range args {
			if op == "*" {
				args[i] = g.sub("call.arg", func() string { return g.wrap(g.leaf(tI)) })
			} else {
				args[i] = g.sub("call.arg", func() string { return g.expr(tI, d-1) })
			}
		}
		g.count("arith")
		return "(" + op + " " + strings.Join(args, " ") + ")"
	case 4:
		g.count("arith")
		return fmt.Sprintf("(%s %s)", g.r.Pick([]string{"1+", "1-"}), g.sub("call.arg", func() string { return g.expr(tI, d-1) }))
	case 5, 6:
		g.count("if")
		return fmt.Sprintf("(if %s %s %s)", g.sub("if.test", func() string { return g.expr(tB, d-1) }),
			g.sub("if.then", func() string { return g.expr(tI, d-1) }), g.sub("if.else", func() string { return g.expr(tI, d-1) }))
	case 7:
		g.count("progn")
		return "(progn " + g.seq("progn", tI, d, 3) + ")"
	case 8:
		g.count("prog1")
		first := g.sub("prog1.first", func() string { return g.expr(tI, d-1) })
		var rest []string
		for i := g.r.Intn(3); i > 0; i-- {
			rest = append(rest, g.sub("prog1.body", func() string { return g.stmt(d - 1) }))
		}
		return strings.TrimSpace("(prog1 "+first+" "+strings.Join(rest, " ")) + ")"
	case 9, 10, 11:
		return g.letExpr(tI, d)
	case 12:
		return g.condExpr(tI, d)
	case 13:
		return g.caseExpr(tI, d)
	case 14:
		// (or (and test int) int): and/or in value position
		g.count("and-or")
		inner := g.sub("or.first", func() string {
			return fmt.Sprintf("(and %s %s)", g.sub("and.first", func() string { return g.expr(tB, d-1) }),
				g.sub("and.last", func() string { return g.expr(tI, d-1) }))
		})
		return fmt.Sprintf("(or %s %s)", inner, g.sub("or.last", func() string { return g.expr(tI, d-1) }))
	case 15:
		if v, ok := g.pickVar(tI, true); ok {
			g.count("setq")
			if g.r.Chance(30) {
				if v2, ok2 := g.pickVar(tI, true); ok2 {
					return fmt.Sprintf("(setq %s %s %s %s)", v.name, g.sub("setq.value", func() string { return g.expr(tI, d-1) }),
						v2.name, g.sub("setq.value", func() string { return g.expr(tI, d-1) }))
				}
			}
			return fmt.Sprintf("(setq %s %s)", v.name, g.sub("setq.value", func() string { return g.expr(tI, d-1) }))
		}
		return g.letExpr(tI, d)
	case 16, 17:
		return g.callFn(d)
	case 18:
		return g.userCall(d)
	case 19:
		g.count("list-op")
		return fmt.Sprintf("(length %s)", g.sub("call.arg", func() string { return g.expr(tL, d-1) }))
	case 20:
		// (car list) may be nil: guard with or
		g.count("list-op")
		inner := g.sub("or.first", func() string {
			return fmt.Sprintf("(car %s)", g.sub("call.arg", func() string { return g.expr(tL, d-1) }))
		})
		return fmt.Sprintf("(or %s %s)", inner, g.lit())
	case 21, 22:
		return g.loopExpr(d, false)
	case 23:
		return g.mvExpr(tI, d)
	case 24, 25:
		if g.ctl {
			return g.exitOrCtl(tI, d)
		}
		return g.letExpr(tI, d)
	case 26:
		if g.ctl {
			return g.blockExpr(tI, d)
		}
		return g.callFn(d)
	case 27:
		// apply with a spread list of known length
		g.count("apply")
		return fmt.Sprintf("(apply (function +) %s %s)", g.sub("apply.arg", func() string { return g.expr(tI, d-1) }),
			g.sub("apply.arg", func() string { return g.expr(tL, d-1) }))
	case 28:
		// direct lambda call
		if g.shadow {
			return g.letExpr(tI, d)
		}
		g.count("lambda-call")
		p := g.fresh("p")
		arg := g.sub("dlambda.arg", func() string { return g.expr(tI, d-1) })
		savedNB := g.noBare
		if (g.inFn || g.eager) && (g.avoid("dlambda.in-defun", "c01") || g.avoid("dlambda.in-lambda", "c01") || g.avoid("dlambda.in-do-step", "c01")) {
			// inside a function body the direct call is compiled eagerly in an empty scope and a bare
			// free variable as a body form becomes an unbound global (C01 findings): avoid bare symbols
			g.noBare = true
		}
		savedIn, savedHeld := g.inFn, g.held
		g.inFn = true // the body of a direct call is a function body too
		body := g.withVars([]gvar{{name: p, typ: tI}}, func() string { return g.seq("dlambda", tI, d, 1) })
		g.noBare, g.inFn, g.held = savedNB, savedIn, savedHeld
		return fmt.Sprintf("((lambda (%s) %s) %s)", p, body, arg)
	}
	return g.leaf(tI)
}

func (g *evGen) listExpr(d int) string {
	if d <= 0 || g.size <= 0 {
		return g.leaf(tL)
	}
	switch g.r.Intn(12) {
	case 0:
		return g.leaf(tL)
	case 1, 2:
		n := g.r.Intn(4)
		args := make([]string, n)
		for i := range args {
			args[i] = g.sub("call.arg", func() string { return g.expr(tI, d-1) })
		}
		g.count("list-op")
		return strings.TrimSpace("(list "+strings.Join(args, " ")) + ")"
	case 3:
		g.count("list-op")
		return fmt.Sprintf("(cons %s %s)", g.sub("call.arg", func() string { return g.expr(tI, d-1) }), g.sub("call.arg", func() string { return g.expr(tL, d-1) }))
	case 4:
		g.count("list-op")
		return fmt.Sprintf("(cdr %s)", g.sub("call.arg", func() string { return g.expr(tL, d-1) }))
	case 5, 6:
		g.count("mapcar")
		if g.r.Chance(25) {
			f := g.fnExpr(2, d-1, true, "mapcar")
			return fmt.Sprintf("(mapcar %s %s %s)", f, g.sub("mapcar.list", func() string { return g.expr(tL, d-1) }),
				g.sub("mapcar.list", func() string { return g.expr(tL, d-1) }))
		}
		f := g.fnExpr(1, d-1, true, "mapcar")
		return fmt.Sprintf("(mapcar %s %s)", f, g.sub("mapcar.list", func() string { return g.expr(tL, d-1) }))
	case 7:
		g.count("if")
		return fmt.Sprintf("(if %s %s %s)", g.sub("if.test", func() string { return g.expr(tB, d-1) }),
			g.sub("if.then", func() string { return g.expr(tL, d-1) }), g.sub("if.else", func() string { return g.expr(tL, d-1) }))
	case 8:
		return g.letExpr(tL, d)
	case 9:
		return g.mvExpr(tL, d)
	case 10:
		if v, ok := g.pickVar(tL, true); ok {
			g.count("setq")
			return fmt.Sprintf("(setq %s %s)", v.name, g.sub("setq.value", func() string { return g.expr(tL, d-1) }))
		}
		return g.leaf(tL)
	}
	g.count("progn")
	return "(progn " + g.seq("progn", tL, d, 2) + ")"
}

func (g *evGen) boolExpr(d int) string {
	if d <= 0 || g.size <= 0 {
		return g.leaf(tB)
	}
	switch g.r.Intn(10) {
	case 0:
		return g.leaf(tB)
	case 1, 2, 3:
		g.count("compare")
		op := g.r.Pick([]string{"<", ">", "=", "<=", ">=", "eql"})
		return fmt.Sprintf("(%s %s %s)", op, g.sub("call.arg", func() string { return g.expr(tI, d-1) }), g.sub("call.arg", func() string { return g.expr(tI, d-1) }))
	case 4:
		g.count("compare")
		return fmt.Sprintf("(not %s)", g.sub("call.arg", func() string { return g.expr(tB, d-1) }))
	case 5:
		g.count("compare")
		return fmt.Sprintf("(null %s)", g.sub("call.arg", func() string { return g.expr(tL, d-1) }))
	case 6:
		g.count("and-or")
		n := 2 + g.r.Intn(2)
		args := make([]string, n)
		for i := range args {
			cell := "and.first"
			if i == n-1 {
				cell = "and.last"
			}
			args[i] = g.sub(cell, func() string { return g.expr(tB, d-1) })
		}
		return "(and " + strings.Join(args, " ") + ")"
	case 7:
		g.count("and-or")
		n := 2 + g.r.Intn(2)
		args := make([]string, n)
		for i := range args {
			cell := "or.first"
			if i == n-1 {
				cell = "or.last"
			}
			args[i] = g.sub(cell, func() string { return g.expr(tB, d-1) })
		}
		return "(or " + strings.Join(args, " ") + ")"
	case 8:
		// an integer or a list is a boolean too
		return g.expr([]int{tI, tL}[g.r.Intn(2)], d-1)
	}
	g.count("if")
	return fmt.Sprintf("(if %s %s %s)", g.sub("if.test", func() string { return g.expr(tB, d-1) }),
		g.sub("if.then", func() string { return g.expr(tB, d-1) }), g.sub("if.else", func() string { return g.expr(tB, d-1) }))
}

func (g *evGen) letExpr(t, d int) string {
	star := g.r.Chance(40)
	form, cell := "let", "let"
	if star {
		form, cell = "let*", "let*"
	}
	g.count(form)
	n := 1 + g.r.Intn(3)
	var bs []string
	var nv []gvar
	saved := g.vars
	used := map[string]bool{}
	for i := 0; i < n; i++ {
		typ := tI
		if g.r.Chance(25) {
			typ = tL
		}
		name := g.freshIn("v", used)
		v := gvar{name: name, typ: typ}
		var init string
		switch {
		case !g.shadow && typ == tI && g.r.Chance(20) && d > 1:
			// a closure bound to a variable (not immediately called: no exits to outer targets inside)
			ar := 1 + g.r.Intn(2)
			init = g.fnExpr(ar, d-1, false, "")
			v.fn = ar
		case g.r.Chance(8):
			init = "" // (x) / x : bound to nil
			v.typ = tL
		default:
			init = g.sub(cell+".init", func() string { return g.expr(typ, d-1) })
		}
		if init == "" {
			if g.r.Bool() {
				bs = append(bs, name)
			} else {
				bs = append(bs, "("+name+")")
			}
		} else {
			bs = append(bs, fmt.Sprintf("(%s %s)", name, init))
		}
		nv = append(nv, v)
		if star {
			g.vars = append(append([]gvar{}, g.vars...), v)
		}
	}
	g.vars = saved
	body := g.withVars(nv, func() string { return g.seq(cell, t, d, 2) })
	return fmt.Sprintf("(%s (%s) %s)", form, strings.Join(bs, " "), body)
}

func (g *evGen) condExpr(t, d int) string {
	g.count("cond")
	n := 1 + g.r.Intn(3)
	var cl []string
	for i := 0; i < n; i++ {
		test := g.sub("cond.test", func() string { return g.expr(tB, d-1) })
		cl = append(cl, fmt.Sprintf("(%s %s)", test, g.seq("cond", t, d, 1)))
	}
	if t == tB && g.r.Chance(40) && !g.avoid("cond.test-only", "c01") {
		// test-only clause: the value of the test is the value of the cond
		cl = append(cl, "("+g.sub("cond.test", func() string { return g.expr(tI, d-1) })+")")
	}
	cl = append(cl, fmt.Sprintf("(t %s)", g.seq("cond", t, d, 1)))
	return "(cond " + strings.Join(cl, " ") + ")"
}

func (g *evGen) caseExpr(t, d int) string {
	g.count("case")
	key := g.sub("case.key", func() string { return g.expr(tI, d-1) })
	n := 1 + g.r.Intn(3)
	var cl []string
	for i := 0; i < n; i++ {
		var keys string
		if g.r.Bool() {
			keys = g.lit()
		} else {
			keys = fmt.Sprintf("(%s %s)", g.lit(), g.lit())
		}
		cl = append(cl, fmt.Sprintf("(%s %s)", keys, g.seq("case", t, d, 1)))
	}
	cl = append(cl, fmt.Sprintf("(%s %s)", g.r.Pick([]string{"t", "otherwise"}), g.seq("case", t, d, 1)))
	return fmt.Sprintf("(case %s %s)", key, strings.Join(cl, " "))
}

// fnExpr generates a function of `arity` integer arguments returning an integer.
// immediate: the function is called right here (funcall / mapcar / apply), so exits to enclosing
// targets may be placed in a lambda body; consumer names the calling form for the cell name.
func (g *evGen) fnExpr(arity, d int, immediate bool, consumer string) string {
	if !g.shadow {
		if v, ok := g.pickFnVar(arity); ok && g.r.Chance(40) {
			return v.name
		}
	}
	if g.shadow || g.r.Chance(30) || d <= 0 {
		g.count("function-ref")
		var names []string
		if arity == 1 {
			names = []string{"1+", "1-", "vtr", "-", "+"}
		} else {
			names = []string{"+", "-", "*"}
			if g.iter > 1 {
				names = []string{"+", "-"}
			}
		}
		for _, f := range g.funs {
			if f.arity == arity {
				names = append(names, f.name, f.name)
			}
		}
		nm := names[g.r.Intn(len(names))]
		if g.r.Chance(25) {
			return "(quote " + nm + ")"
		}
		return "(function " + nm + ")"
	}
	{
		// a closure made by a maker function: it outlives the call that created its binding
		var cand []gfun
		for _, m := range g.makers {
			if m.arity == arity {
				cand = append(cand, m)
			}
		}
		if len(cand) > 0 && g.r.Chance(50) {
			g.count("maker-call")
			m := cand[g.r.Intn(len(cand))]
			return fmt.Sprintf("(%s %s)", m.name, g.sub("ucall.arg", func() string { return g.expr(tI, d-1) }))
		}
	}
	g.count("lambda")
	ps := make([]string, arity)
	nv := make([]gvar, arity)
	usedP := map[string]bool{}
	for i := range ps {
		ps[i] = g.freshIn("p", usedP)
		nv[i] = gvar{name: ps[i], typ: tI}
	}
	plist := strings.Join(ps, " ")
	if g.r.Chance(25) {
		// (p… &rest r): the last k parameters are collected in a list made for the call
		g.count("lambda-rest")
		k := g.r.Intn(arity + 1)
		rn := g.fresh("r")
		plist = strings.TrimSpace(strings.Join(ps[:k], " ") + " &rest " + rn)
		nv = append(nv[:k:k], gvar{name: rn, typ: tL})
	}
	savedT, savedIn, savedHeld := g.targets, g.inFn, g.held
	escaping := g.r.Chance(30)
	var cname, cinit string
	if escaping {
		// (let ((c init)) (lambda …)): the closure is called after the let that holds its variable has returned
		g.count("lambda-escaping-let")
		cname = g.fresh("c")
		cinit = g.sub("let.init", func() string { return g.expr(tI, d-1) })
		nv = append(nv, gvar{name: cname, typ: tI})
	}
	if !immediate || escaping {
		g.targets = nil
	}
	g.inFn = true
	cell := "lambda"
	if consumer == "mapcar" {
		cell = "mapcar-lambda"
	}
	body := g.withVars(nv, func() string {
		if escaping && g.r.Chance(60) {
			// make sure the captured variable is assigned, from a nested scope or directly
			return g.escapedUpdate(cname, d) + " " + g.seq(cell, tI, d, 1)
		}
		return g.seq(cell, tI, d, 2)
	})
	g.targets, g.inFn, g.held = savedT, savedIn, savedHeld
	if escaping {
		return fmt.Sprintf("(let ((%s %s)) (lambda (%s) %s))", cname, cinit, plist, body)
	}
	return fmt.Sprintf("(lambda (%s) %s)", plist, body)
}

// escapedUpdate: a statement assigning the captured variable c from one of the nested scopes a closure body can
// contain (the assignment has to find the binding the closure was created in, wherever it is evaluated)
func (g *evGen) escapedUpdate(c string, d int) string {
	g.count("setq")
	val := fmt.Sprintf("(+ %s %s)", c, g.sub("call.arg", func() string { return g.wrap(g.leaf(tI)) }))
	set := fmt.Sprintf("(setq %s %s)", c, val)
	q := g.fresh("q")
	switch g.r.Intn(9) {
	case 0:
		return set
	case 1:
		return fmt.Sprintf("(let ((%s %s)) %s)", q, g.lit(), set)
	case 2:
		return fmt.Sprintf("(let* ((%s %s)) (setq %s (+ %s %s)))", q, g.lit(), c, c, q)
	case 3:
		return fmt.Sprintf("(dotimes (%s 2) %s)", q, set)
	case 4:
		return fmt.Sprintf("(dolist (%s (quote (1 2))) (setq %s (+ %s %s)))", q, c, c, q)
	case 5:
		return fmt.Sprintf("(do ((%s 0 (+ %s 1))) ((>= %s 2)) %s)", q, q, q, set)
	case 6:
		return fmt.Sprintf("(multiple-value-bind (%s) (values %s) (setq %s (+ %s %s)))", q, g.lit(), c, c, q)
	case 7:
		return fmt.Sprintf("(when (< %s 1000) (let ((%s 1)) (setq %s (+ %s %s))))", c, q, c, c, q)
	}
	return fmt.Sprintf("(funcall (lambda (%s) (setq %s (+ %s %s))) %s)", q, c, c, q, g.lit())
}

// callFn: funcall / apply of a function expression
func (g *evGen) callFn(d int) string {
	arity := 1 + g.r.Intn(2)
	f := g.fnExpr(arity, d-1, true, "funcall")
	args := make([]string, arity)
	if g.r.Chance(25) {
		g.count("apply")
		for i := range args {
			args[i] = g.sub("apply.arg", func() string { return g.expr(tI, d-1) })
		}
		last := args[arity-1]
		return strings.TrimSpace(fmt.Sprintf("(apply %s %s", f, strings.Join(args[:arity-1], " "))) + fmt.Sprintf(" (list %s))", last)
	}
	g.count("funcall")
	for i := range args {
		args[i] = g.sub("funcall.arg", func() string { return g.expr(tI, d-1) })
	}
	return fmt.Sprintf("(funcall %s %s)", f, strings.Join(args, " "))
}

func (g *evGen) userCall(d int) string {
	if sf := g.self; sf != nil && sf.sites < 2 && g.iter == sf.iter && g.r.Chance(60) {
		return g.selfCall(d)
	}
	if len(g.funs) == 0 {
		return g.callFn(d)
	}
	f := g.funs[g.r.Intn(len(g.funs))]
	g.count("user-call")
	args := make([]string, f.arity)
	for i := range args {
		args[i] = g.sub("ucall.arg", func() string { return g.expr(tI, d-1) })
	}
	return fmt.Sprintf("(%s %s)", f.name, strings.Join(args, " "))
}

// selfCall: the enclosing recursive function calls itself with a smaller counter
func (g *evGen) selfCall(d int) string {
	sf := g.self
	sf.sites++
	g.count("self-call")
	args := []string{fmt.Sprintf("(- %s 1)", sf.n)}
	for range sf.rest {
		args = append(args, g.sub("ucall.arg", func() string { return g.expr(tI, d-1) }))
	}
	return fmt.Sprintf("(%s %s)", sf.name, strings.Join(args, " "))
}

// cleanupRecursion: the recursive function leaves an unwind-protect by an exit whose value depends on the
// activation, and calls itself from the cleanup forms — the form that produced the exit is evaluated again while
// the exit is on its way to its target.
func (g *evGen) cleanupRecursion(d int) string {
	sf := g.self
	g.count("cleanup-recursion")
	inner := func() string {
		var cand []gtarget
		for _, tg := range g.targets {
			if tg.ok && (tg.kind == "ret-from" || tg.kind == "ret-nil") && !g.avoid("unwind-protect.protected", tg.kind) {
				cand = append(cand, tg)
			}
		}
		value := fmt.Sprintf("(vtr (+ %s %s))", sf.n, g.lit())
		if g.r.Chance(30) {
			value = fmt.Sprintf("(+ %s %s)", sf.n, g.sub("call.arg", func() string { return g.expr(tI, 1) }))
		}
		prot := value // normal completion
		if len(cand) > 0 && g.r.Chance(85) {
			tg := cand[g.r.Intn(len(cand))]
			if tg.kind == "ret-from" {
				g.count("return-from")
				prot = fmt.Sprintf("(return-from %s %s)", tg.name, value)
			} else {
				g.count("return")
				prot = fmt.Sprintf("(return %s)", value)
			}
		}
		var cl []string
		if g.r.Chance(40) {
			cl = append(cl, "(vtr "+g.tr()+")")
		}
		cl = append(cl, g.sub("unwind-protect.cleanup", func() string { return g.selfCall(d) }))
		if g.r.Chance(40) {
			cl = append(cl, g.sub("unwind-protect.cleanup", func() string { return g.stmt(1) }))
		}
		g.count("unwind-protect")
		return fmt.Sprintf("(unwind-protect %s %s)", prot, strings.Join(cl, " "))
	}
	switch g.r.Intn(5) {
	case 0:
		return fmt.Sprintf("(let ((%s (* %s 10))) %s)", g.fresh("v"), sf.n, g.sub("let.last", inner))
	case 1:
		b := g.fresh("b")
		saved := g.targets
		g.targets = append(append([]gtarget{}, saved...), gtarget{name: b, ok: true, kind: "ret-from"})
		in := g.sub("block.body", inner)
		g.targets = saved
		return fmt.Sprintf("(block %s %s (vtr %s))", b, in, g.tr())
	case 2:
		saved := g.pushLoopTargets()
		in := g.sub("dolist.body", inner)
		g.targets = saved
		return fmt.Sprintf("(dolist (%s (quote (1 2)) 0) %s)", g.fresh("x"), in)
	case 3:
		saved := g.pushLoopTargets()
		in := g.sub("dotimes.body", inner)
		g.targets = saved
		return fmt.Sprintf("(dotimes (%s 2 0) %s)", g.fresh("i"), in)
	}
	return inner()
}

// loopExpr: dolist / dotimes / do / do*. As a statement the value is ignored.
func (g *evGen) loopExpr(d int, asStmt bool) string {
	count := 1 + g.r.Intn(3)
	if g.r.Chance(12) {
		count = 0 // boundary: the body is never evaluated, the result form sees the variable all the same
	}
	if g.iter*count > 48 {
		return g.leaf(tI)
	}
	savedIter := g.iter
	g.iter *= count + 1
	defer func() { g.iter = savedIter }()
	// the loop establishes a nil block and a tagbody: targets inside are handled by enterLoop
	kind := g.r.Intn(4)
	acc, hasAcc := g.pickVar(tI, true)
	bodyStmt := func(cell string, extra []gvar) string {
		return g.withVars(extra, func() string {
			var parts []string
			for i := 1 + g.r.Intn(2); i > 0; i-- {
				parts = append(parts, g.sub(cell+".body", func() string { return g.loopBodyStmt(d-1, acc, hasAcc) }))
			}
			return strings.Join(parts, " ")
		})
	}
	switch kind {
	case 0:
		g.count("dolist")
		x := g.fresh("x")
		saved := g.pushLoopTargets()
		lst := g.sub("dolist.list", func() string { return g.expr(tL, d-1) })
		body := bodyStmt("dolist", []gvar{{name: x, typ: tI, ro: true}})
		res := ""
		if g.r.Chance(60) || !asStmt {
			res = " " + g.withVars([]gvar{{name: x, typ: tL, ro: true}}, func() string {
				return g.sub("dolist.result", func() string { return g.expr(tI, d-1) })
			})
		}
		g.targets = saved
		return fmt.Sprintf("(dolist (%s %s%s) %s)", x, lst, res, body)
	case 1:
		g.count("dotimes")
		x := g.fresh("i")
		saved := g.pushLoopTargets()
		cnt := g.sub("dotimes.count", func() string { return g.wrap(fmt.Sprintf("%d", count)) })
		body := bodyStmt("dotimes", []gvar{{name: x, typ: tI, ro: true}})
		res := ""
		if g.r.Chance(60) || !asStmt {
			res = " " + g.withVars([]gvar{{name: x, typ: tI, ro: true}}, func() string {
				return g.sub("dotimes.result", func() string { return g.expr(tI, d-1) })
			})
		}
		g.targets = saved
		return fmt.Sprintf("(dotimes (%s %s%s) %s)", x, cnt, res, body)
	}
	form := "do"
	if kind == 3 {
		form = "do*"
	}
	g.count(form)
	i, a := g.fresh("i"), g.fresh("a")
	saved := g.pushLoopTargets()
	initA := g.sub(form+".init", func() string { return g.expr(tI, d-1) })
	vi, va := gvar{name: i, typ: tI, ro: true}, gvar{name: a, typ: tI, ro: true}
	var stepA, test, res, body string
	g.withVars([]gvar{vi, va}, func() string {
		savedEager := g.eager
		g.eager = true // step forms are compiled when the loop is set up, outside the loop's scope
		stepA = g.sub(form+".step", func() string { return g.expr(tI, d-1) })
		g.eager = savedEager
		test = g.sub(form+".test", func() string { return g.wrap(fmt.Sprintf("(>= %s %d)", i, count)) })
		res = g.sub(form+".result", func() string { return g.expr(tI, d-1) })
		body = bodyStmt(form, nil)
		return ""
	})
	g.targets = saved
	// in do the step of `a` sees the old `i` (parallel), in do* the new one (sequential): use i in the step
	if g.r.Chance(50) {
		stepA = fmt.Sprintf("(+ %s %s)", i, stepA)
	}
	if g.r.Chance(25) {
		// a variable without step form keeps its value
		return fmt.Sprintf("(%s ((%s 0 (+ %s 1)) (%s %s)) (%s %s) %s)", form, i, i, a, initA, test, res, body)
	}
	return fmt.Sprintf("(%s ((%s 0 (+ %s 1)) (%s %s %s)) (%s %s) %s)", form, i, i, a, initA, stepA, test, res, body)
}

// pushLoopTargets: a loop establishes its own nil block (return is caught by the loop itself and
// is always reachable from its body), and hides an outer nil block.
func (g *evGen) pushLoopTargets() []gtarget {
	saved := g.targets
	if !g.ctl {
		return saved
	}
	var nt []gtarget
	for _, t := range saved {
		if t.kind == "ret-nil" {
			continue // shadowed by the loop's own nil block
		}
		nt = append(nt, t)
	}
	nt = append(nt, gtarget{name: "nil", ok: true, kind: "ret-nil"})
	g.targets = nt
	return saved
}

func (g *evGen) loopBodyStmt(d int, acc gvar, hasAcc bool) string {
	if hasAcc && g.r.Chance(50) {
		g.count("setq")
		return fmt.Sprintf("(setq %s (+ %s %s))", acc.name, acc.name, g.sub("call.arg", func() string { return g.expr(tI, d-1) }))
	}
	return g.stmt(d)
}

func (g *evGen) mvExpr(t, d int) string {
	if t == tL {
		g.count("multiple-value-list")
		n := 1 + g.r.Intn(3)
		vs := make([]string, n)
		for i := range vs {
			vs[i] = g.sub("values.arg", func() string { return g.expr(tI, d-1) })
		}
		return fmt.Sprintf("(multiple-value-list (values %s))", strings.Join(vs, " "))
	}
	g.count("multiple-value-bind")
	nvals, nvars := 1+g.r.Intn(3), 1+g.r.Intn(3)
	vs := make([]string, nvals)
	for i := range vs {
		vs[i] = g.sub("values.arg", func() string { return g.expr(tI, d-1) })
	}
	var names []string
	var nv []gvar
	usedM := map[string]bool{}
	for i := 0; i < nvars; i++ {
		nm := g.freshIn("m", usedM)
		names = append(names, nm)
		if i < nvals {
			nv = append(nv, gvar{name: nm, typ: tI})
		} else {
			nv = append(nv, gvar{name: nm, typ: tL}) // nil
		}
	}
	var vform string
	if g.ctl && g.r.Chance(25) && !g.avoid("mv.return-from", "ret-from") {
		// the values are carried out of a block by return-from
		g.count("return-from-values")
		b := g.fresh("b")
		vform = g.sub("mvb.values", func() string {
			saved := g.targets
			g.targets = append(append([]gtarget{}, saved...), gtarget{name: b, ok: true, kind: "ret-from"})
			pre := g.sub("block.body", func() string { return g.stmt(d - 1) })
			g.targets = saved
			wrapL, wrapR := "", ""
			switch g.r.Intn(4) {
			case 0:
				wrapL, wrapR = "(let (("+g.fresh("v")+" 1)) ", ")"
			case 1:
				wrapL, wrapR = "(unwind-protect ", " (vtr "+g.tr()+"))"
			case 2:
				wrapL, wrapR = "(when t ", ")"
			}
			return fmt.Sprintf("(block %s %s %s(return-from %s (values %s))%s (vtr %s))", b, pre, wrapL, b, strings.Join(vs, " "), wrapR, g.tr())
		})
	} else if g.r.Chance(20) {
		vform = g.sub("mvb.values", func() string { return g.expr(tI, d-1) }) // a single value
		for i := 1; i < len(nv); i++ {
			nv[i].typ = tL
		}
	} else {
		vform = "(values " + strings.Join(vs, " ") + ")"
	}
	body := g.withVars(nv, func() string { return g.seq("mvb", t, d, 1) })
	return fmt.Sprintf("(multiple-value-bind (%s) %s %s)", strings.Join(names, " "), vform, body)
}

// ---------------------------------------------------------------------------------------------
// C07: control forms

func (g *evGen) blockExpr(t, d int) string {
	g.count("block")
	name := g.fresh("b")
	saved := g.targets
	g.targets = append(append([]gtarget{}, saved...), gtarget{name: name, ok: true, kind: "ret-from"})
	body := g.seq("block", t, d, 2)
	g.targets = saved
	return fmt.Sprintf("(block %s %s)", name, body)
}

// exitOrCtl: an exit to a reachable target, an error, or a control form around a body
func (g *evGen) exitOrCtl(t, d int) string {
	return g.exitOrCtlKind(t, d, g.r.Intn(12))
}

func (g *evGen) exitOrCtlKind(t, d, kind int) string {
	switch kind {
	case 0, 1, 2:
		// an exit, guarded by a test so that the code after it is not always dead
		var cand []gtarget
		for _, tg := range g.targets {
			if tg.ok {
				cand = append(cand, tg)
			}
		}
		if len(cand) == 0 {
			return g.blockExpr(t, d)
		}
		tg := cand[g.r.Intn(len(cand))]
		var ex string
		switch tg.kind {
		case "ret-from", "ret-nil":
			value := g.sub("return-from.value", func() string {
				// pair cells: inside the value form, an exit to the same block, or to a target established
				// inside that block (the marker of the outer return wraps the inner exit)
				nt := append([]gtarget{}, g.targets...)
				seen := false
				for i := range nt {
					if nt[i].name == tg.name && nt[i].kind == tg.kind {
						seen = true
						if g.avoid("return-from.value-same-block", tg.kind) {
							nt[i].ok = false
						}
						continue
					}
					if seen && g.avoid("return-from.value-outer-block", nt[i].kind) {
						nt[i].ok = false
					}
				}
				g.targets = nt
				return g.expr(t, d-1)
			})
			if tg.kind == "ret-from" {
				g.count("return-from")
				ex = fmt.Sprintf("(return-from %s %s)", tg.name, value)
			} else {
				g.count("return")
				ex = fmt.Sprintf("(return %s)", value)
			}
		default:
			g.count("go")
			ex = fmt.Sprintf("(go %s)", tg.name)
		}
		if g.r.Chance(50) && !g.avoid("if.then", tg.kind) {
			return fmt.Sprintf("(if %s %s %s)", g.sub("if.test", func() string { return g.expr(tB, d-1) }), ex, g.leaf(t))
		}
		return ex
	case 3:
		g.count("error")
		switch g.r.Intn(4) {
		case 0:
			return "(error \"boom\")"
		case 1:
			return "(car (vtr 7))" // type-error
		case 2:
			return "(/ (vtr 1) 0)" // division-by-zero
		}
		return "(vtr vunbound)" // unbound-variable
	case 4, 5:
		g.count("unwind-protect")
		p := g.sub("unwind-protect.protected", func() string { return g.expr(t, d-1) })
		var cl []string
		for i := 1 + g.r.Intn(2); i > 0; i-- {
			cl = append(cl, g.sub("unwind-protect.cleanup", func() string { return g.stmt(d - 1) }))
		}
		return fmt.Sprintf("(unwind-protect %s %s)", p, strings.Join(cl, " "))
	case 6:
		g.count("ignore-errors")
		if t == tI {
			// the primary value (nil after an error) is taken through multiple-value-list: testing the
			// multiple values of ignore-errors directly is a C01 finding (mv.or-nonlast / mv.if-test)
			inner := g.sub("or.first", func() string {
				return g.sub("call.arg", func() string {
					return g.sub("mvl.arg", func() string {
						return fmt.Sprintf("(car (multiple-value-list (ignore-errors %s)))", g.seq("ignore-errors", t, d, 2))
					})
				})
			})
			return fmt.Sprintf("(or %s %s)", inner, g.lit())
		}
		return fmt.Sprintf("(ignore-errors %s)", g.seq("ignore-errors", t, d, 2))
	case 7:
		return g.tagbodyExpr(t, d)
	case 8:
		if !g.inFn {
			for k := 0; k < evNMutex; k++ {
				if !g.held[k] {
					g.count("with-mutex-lock")
					g.held[k] = true
					body := g.seq("with-mutex-lock", t, d, 2)
					g.held[k] = false
					probe := ""
					if g.r.Chance(50) {
						probe = fmt.Sprintf("(vtr (vheld vmx%d)) ", g.r.Intn(evNMutex))
					}
					return fmt.Sprintf("(with-mutex-lock vmx%d %s%s)", k, probe, body)
				}
			}
		}
		return g.blockExpr(t, d)
	case 10:
		// (recover sym on-recover form…): an error in the forms is replaced by the value of the on-recover form
		g.count("recover")
		rv := g.fresh("r")
		on := g.sub("recover.on-recover", func() string { return g.expr(t, d-1) })
		var parts []string
		n := g.r.Intn(3)
		for i := 0; i < n; i++ {
			parts = append(parts, g.sub("recover.body", func() string {
				if g.r.Chance(35) {
					return g.exitOrCtlKind(tI, d-1, 3) // an error
				}
				return g.stmt(d - 1)
			}))
		}
		parts = append(parts, g.sub("recover.last", func() string { return g.expr(t, d-1) }))
		return fmt.Sprintf("(recover %s %s %s)", rv, on, strings.Join(parts, " "))
	case 11:
		// with-open-file: the stream is remembered and probed by a cleanup form that runs on every path
		g.count("with-open-file")
		h, sv := g.fresh("h"), g.fresh("s")
		restore := g.enter("let.last")
		restore2 := g.enter("unwind-protect.protected")
		var parts []string
		if g.r.Chance(50) {
			parts = append(parts, fmt.Sprintf("(vtr (vopen %s))", sv))
		}
		// the state of the stream when the body is left is a dimension of its own: still open, closed by the
		// body (before or between its forms; twice: closing a closed stream is a no-op), opened as a probe
		opts := ""
		switch k := g.r.Intn(100); {
		case k < 25:
			opts = " :direction :input"
		case k < 40:
			opts = " :direction :probe"
		}
		closeForm := fmt.Sprintf("(vtr (close %s))", sv)
		if g.r.Chance(35) {
			parts = append(parts, closeForm)
		}
		if g.r.Chance(30) {
			parts = append(parts, g.sub("with-open-file.body", func() string { return g.stmt(d - 1) }))
			if g.r.Chance(60) {
				parts = append(parts, closeForm)
				if g.r.Chance(40) {
					parts = append(parts, fmt.Sprintf("(vtr (vopen %s))", sv))
				}
			}
		}
		if g.r.Chance(25) {
			// an error (of one of the classes) after whatever was done to the stream
			parts = append(parts, g.sub("with-open-file.body", func() string { return g.exitOrCtlKind(tI, d-1, 3) }))
		}
		parts = append(parts, g.seq("with-open-file", t, d, 2))
		restore2()
		restore()
		return fmt.Sprintf("(let ((%s nil)) (unwind-protect (with-open-file (%s \"/dev/null\"%s) (setq %s %s) %s) (vtr (vopen %s))))",
			h, sv, opts, h, sv, strings.Join(parts, " "), h)
	}
	return g.blockExpr(t, d)
}

// tagbodyExpr: (progn (tagbody …) value) with forward jumps and one counted backward jump
func (g *evGen) tagbodyExpr(t, d int) string {
	g.count("tagbody")
	n := 2 + g.r.Intn(3)
	base := 10 * (1 + g.r.Intn(50))
	labels := make([]string, n)
	for i := range labels {
		labels[i] = fmt.Sprintf("%d", base+i)
	}
	back := g.r.Chance(40) && !g.avoid("direct", "go-back") && !g.avoid("when.last", "go-back") && g.iter*3 <= 48
	savedIter := g.iter
	if back {
		g.iter *= 3
	}
	defer func() { g.iter = savedIter }()
	wrapper := "progn.body"
	if back {
		wrapper = "let.body"
	}
	restoreWrapper := g.enter(wrapper)
	defer restoreWrapper()
	saved := g.targets
	var items []string
	for i := 0; i < n; i++ {
		// statements before label i may jump forward to labels i..n-1
		nt := append([]gtarget{}, saved...)
		for j := i; j < n; j++ {
			nt = append(nt, gtarget{name: labels[j], ok: true, kind: "go-fwd"})
		}
		g.targets = nt
		for k := g.r.Intn(3); k > 0; k-- {
			items = append(items, g.sub("tagbody.body", func() string { return g.stmt(d - 1) }))
		}
		items = append(items, labels[i])
	}
	g.targets = saved
	items = append(items, g.sub("tagbody.body", func() string { return g.stmt(d - 1) }))
	if back {
		// a counted backward jump: (when (< c 2) (setq c (+ c 1)) (go first))
		cn := g.fresh("c")
		loop := fmt.Sprintf("(when (< %s 2) (setq %s (+ %s 1)) (go %s))", cn, cn, cn, labels[0])
		return fmt.Sprintf("(let ((%s 0)) (tagbody %s %s) %s)", cn, strings.Join(items, " "), loop, g.withVars([]gvar{{name: cn, typ: tI, ro: true}}, func() string { return g.leaf(t) }))
	}
	return fmt.Sprintf("(progn (tagbody %s) %s)", strings.Join(items, " "), g.leaf(t))
}

// ---------------------------------------------------------------------------------------------
// whole programs

func (g *evGen) defun(recursive bool) string {
	name := g.fresh("f")
	arity := 1 + g.r.Intn(2)
	ps := make([]string, arity)
	nv := make([]gvar, arity)
	usedP := map[string]bool{}
	for i := range ps {
		ps[i] = g.freshIn("p", usedP)
		nv[i] = gvar{name: ps[i], typ: tI}
	}
	restDefun := !recursive && g.r.Chance(20)
	if restDefun {
		// (defun f (p… &rest r) …): the last argument of every call arrives as a one-element list
		g.count("defun-rest")
		nv[arity-1].typ = tL
	}
	savedT, savedIn, savedIter, savedVars := g.targets, g.inFn, g.iter, g.vars
	g.targets, g.inFn, g.iter = nil, true, 4
	g.vars = nil
	g.inDefun = true
	defer func() { g.inDefun = false }()
	if g.ctl {
		// a defun body is an implicit block named like the function
		g.targets = []gtarget{{name: name, ok: true, kind: "ret-from"}}
	}
	var body string
	d := 2 + g.r.Intn(3)
	if recursive {
		g.count("defun-recursive")
		nv[0].ro = true
		savedShadow := g.shadow
		general := g.r.Chance(50)
		if !general {
			body = g.withVars(nv, func() string {
				g.shadow = true // no lambda inside a recursive function (closure finding)
				var base, stepv string
				g.sub("block.last", func() string {
					base = g.sub("if.then", func() string { return g.expr(tI, d-2) })
					stepv = g.sub("if.else", func() string { return g.sub("call.arg", func() string { return g.expr(tI, d-2) }) })
					return ""
				})
				g.shadow = savedShadow
				args := []string{fmt.Sprintf("(- %s 1)", ps[0])}
				for _, p := range ps[1:] {
					args = append(args, g.wrap(fmt.Sprintf("(+ %s 1)", p)))
				}
				call := fmt.Sprintf("(%s %s)", name, strings.Join(args, " "))
				if g.r.Chance(50) {
					// the recursive call first: what the outer activation bound is read after the inner ones have run
					return fmt.Sprintf("(if (< %s 1) %s (+ %s %s))", ps[0], base, call, stepv)
				}
				return fmt.Sprintf("(if (< %s 1) %s (+ %s %s))", ps[0], base, stepv, call)
			})
		} else {
			// general recursion: the function calls itself from any position of a generated body (argument, binding
			// init, loop-free body, cleanup form of unwind-protect while an exit is on its way, …)
			g.count("defun-recursive-general")
			body = g.withVars(nv, func() string {
				g.shadow = true
				sf := &gself{name: name, n: ps[0], rest: ps[1:], iter: g.iter}
				g.self = sf
				var base, rec string
				g.sub("block.last", func() string {
					base = g.sub("if.then", func() string { g.self = nil; e := g.expr(tI, 1); g.self = sf; return e })
					if g.ctl && g.r.Chance(40) {
						rec = g.sub("if.else", func() string { return g.cleanupRecursion(d) })
					} else {
						rec = g.sub("if.else", func() string { return g.expr(tI, d+1) })
					}
					if sf.sites == 0 {
						rec = g.sub("if.else", func() string {
							a := g.sub("call.arg", func() string { return g.selfCall(d) })
							b := g.sub("call.arg", func() string { return g.expr(tI, d-1) })
							if g.r.Bool() {
								a, b = b, a
							}
							return fmt.Sprintf("(+ %s %s)", a, b)
						})
					}
					return ""
				})
				g.self = nil
				g.shadow = savedShadow
				return fmt.Sprintf("(if (< %s 1) %s %s)", ps[0], base, rec)
			})
		}
	} else {
		g.count("defun")
		// the body is the body of the function's implicit block
		body = g.withVars(nv, func() string { return g.seq("block", tI, d, 2) })
	}
	g.targets, g.inFn, g.iter, g.vars = savedT, savedIn, savedIter, savedVars
	if !recursive {
		g.funs = append(g.funs, gfun{name: name, arity: arity})
	}
	text := fmt.Sprintf("(defun %s (%s) %s)", name, strings.Join(ps, " "), body)
	if restDefun {
		text = fmt.Sprintf("(defun %s (%s) %s)", name, strings.TrimSpace(strings.Join(ps[:arity-1], " ")+" &rest "+ps[arity-1]), body)
	}
	if recursive {
		// the recursive function is only called through a wrapper with a small literal count
		w := g.fresh("f")
		wargs := []string{fmt.Sprintf("%d", 1+g.r.Intn(4))}
		wps := []string{}
		for i := 1; i < arity; i++ {
			wps = append(wps, fmt.Sprintf("q%d", i))
			wargs = append(wargs, fmt.Sprintf("q%d", i))
		}
		if len(wps) == 0 {
			wps = append(wps, "q0")
		}
		text += fmt.Sprintf(" (defun %s (%s) (%s %s))", w, strings.Join(wps, " "), name, strings.Join(wargs, " "))
		g.funs = append(g.funs, gfun{name: w, arity: len(wps)})
	}
	return text
}

// maker: (defun mk (c) (lambda (p…) body)) — every call creates a fresh binding of c that only the returned
// closure can reach; the closure is called after mk has returned
func (g *evGen) maker() string {
	name := g.fresh("f")
	c := g.fresh("c")
	arity := 1 + g.r.Intn(2)
	ps := make([]string, arity)
	nv := []gvar{{name: c, typ: tI}}
	for i := range ps {
		ps[i] = g.fresh("p")
		nv = append(nv, gvar{name: ps[i], typ: tI})
	}
	savedT, savedIn, savedIter, savedVars, savedHeld := g.targets, g.inFn, g.iter, g.vars, g.held
	g.targets, g.inFn, g.iter, g.vars = nil, true, 4, nil
	g.count("defun-maker")
	d := 2 + g.r.Intn(2)
	body := g.withVars(nv, func() string {
		if g.r.Chance(70) {
			return g.escapedUpdate(c, d) + " " + g.seq("lambda", tI, d, 1)
		}
		return g.seq("lambda", tI, d, 2)
	})
	g.targets, g.inFn, g.iter, g.vars, g.held = savedT, savedIn, savedIter, savedVars, savedHeld
	g.makers = append(g.makers, gfun{name: name, arity: arity})
	return fmt.Sprintf("(defun %s (%s) (lambda (%s) %s))", name, c, strings.Join(ps, " "), body)
}

// evGenProgram generates one composite program.
// closureDefun: (let ((c init)) (defun f (q0) …c…)) — a named function closing over a let variable, called by the
// program from outside that let. The name is new, or defined before (redefinition, the old definition called or not),
// or referred to by the body of an earlier defun (forward reference).
func (g *evGen) closureDefun() string {
	g.count("defun-closure")
	// the closed-over variable has a name of its own also in shadow mode: on the unchanged tree a free variable of a
	// function body is looked up in the CALLER's bindings first (listed: closure.read.let-shadow,
	// defun.free-var-lexical), so a caller that binds the same name would hit that finding, not this template's point
	name := g.fresh("f")
	g.n++
	c := fmt.Sprintf("cv%s%d", g.prefix, g.n)
	pre := ""
	switch g.r.Intn(4) {
	case 1:
		pre = fmt.Sprintf("(defun %s (q0) (vtr (+ q0 1000))) (vtr (%s 1)) ", name, name)
	case 2:
		pre = fmt.Sprintf("(defun %s (q0) (+ q0 1000)) ", name)
	case 3:
		u := g.fresh("f")
		pre = fmt.Sprintf("(defun %s (q0) (%s q0)) ", u, name)
		g.funs = append(g.funs, gfun{name: u, arity: 1})
	}
	g.funs = append(g.funs, gfun{name: name, arity: 1})
	return pre + fmt.Sprintf("(let ((%s %s)) (defun %s (q0) (setq %s (+ %s q0)) (vtr %s)))", c, g.lit(), name, c, c, c)
}

func evGenProgram(r *lib.Rng, caseID int, ctl bool, avoid func(cell, exit string) bool, hist map[string]int) string {
	g := &evGen{r: r, prefix: fmt.Sprintf("k%d", caseID), ctl: ctl, avoid: avoid, hist: hist, iter: 1}
	g.shadow = r.Chance(30)
	g.size = 25 + r.Intn(60)
	var parts []string
	if !g.shadow {
		// global variables: created by a top-level setq before anything else runs (names never let-bound)
		for i := r.Intn(3); i > 0; i-- {
			name := g.fresh("g")
			parts = append(parts, fmt.Sprintf("(setq %s %s)", name, g.lit()))
			g.globals = append(g.globals, gvar{name: name, typ: tI})
		}
	}
	for i := r.Intn(3); i > 0; i-- {
		rec := r.Chance(35)
		parts = append(parts, g.defun(rec))
		if rec && r.Chance(50) {
			// the function has been called completely once before the program proper uses it (slip compiles a body
			// lazily and shares the compiled forms between activations afterwards)
			w := g.funs[len(g.funs)-1]
			args := make([]string, w.arity)
			for k := range args {
				args[k] = g.lit()
			}
			parts = append(parts, fmt.Sprintf("(vtr (%s %s))", w.name, strings.Join(args, " ")))
		}
	}
	if !g.shadow && r.Chance(35) {
		parts = append(parts, g.maker())
	}
	if r.Chance(25) {
		parts = append(parts, g.closureDefun())
	}
	d := 2 + r.Intn(4) // generator nesting depth 2..5 (plus the defun level)
	t := []int{tI, tI, tL, tB}[r.Intn(4)]
	if g.shadow {
		hist["mode-shadow"]++
	} else {
		hist["mode-unique"]++
	}
	parts = append(parts, g.expr(t, d))
	return strings.Join(parts, " ")
}
