package main

// C15 — format renders every directive as documented.
// Correspondence: `(format nil control args…)` on the real implementation (objects built directly in
// Go, evaluated in worker subprocesses so that a runaway directive cannot take the harness down)
// versus the Lean model (SlipVerif.Model.Format) through the line protocol "fmt run <ctrl> <arg>*";
// plus relations checked on the implementation alone: ~A = princ, ~S = prin1, nil / stream / t
// destinations give the same text.
//
// Files: c15.go (this: arguments, evaluation, comparison, signatures, replay, run),
//        c15_cells.go (the single-cause sweep), c15_comp.go (composite generator).

import (
	"bufio"
	"bytes"
	"crypto/sha256"
	"encoding/hex"
	"encoding/json"
	"fmt"
	"io"
	"math/big"
	"os"
	"os/exec"
	"runtime"
	"sort"
	"strings"
	"sync"
	"time"

	"github.com/ohler55/slip"
	"verif/harness/lib"
)

func init() { props["C15"] = runC15 }

// ---------------------------------------------------------------------------------------------
// arguments

// fArg is one format argument. Kind: i (integer) s (string) y (symbol, printed name) c (character)
// n (nil) l (proper list).
type fArg struct {
	Kind string  `json:"k"`
	Int  string  `json:"i,omitempty"` // decimal
	Str  string  `json:"s,omitempty"` // string / symbol name
	Chr  int     `json:"c,omitempty"`
	List []fArg  `json:"l,omitempty"`
	Raw  string  `json:"raw,omitempty"` // kind "raw": lisp source evaluated on the implementation only (no model)
}

func aInt(n int64) fArg          { return fArg{Kind: "i", Int: fmt.Sprint(n)} }
func aBig(n *big.Int) fArg       { return fArg{Kind: "i", Int: n.String()} }
func aIntS(s string) fArg        { return fArg{Kind: "i", Int: s} }
func aStr(s string) fArg         { return fArg{Kind: "s", Str: s} }
func aSym(s string) fArg         { return fArg{Kind: "y", Str: s} }
func aChr(c rune) fArg           { return fArg{Kind: "c", Chr: int(c)} }
func aNil() fArg                 { return fArg{Kind: "n"} }
func aList(xs ...fArg) fArg      { if len(xs) == 0 { return aNil() }; return fArg{Kind: "l", List: xs} }
func aRaw(src string) fArg       { return fArg{Kind: "raw", Raw: src} }

// wire: the model's argument tokens
func (a fArg) wire(out []string) []string {
	switch a.Kind {
	case "i":
		return append(out, "i:"+a.Int)
	case "s":
		return append(out, "s:"+lib.Hex(a.Str))
	case "y":
		return append(out, "y:"+lib.Hex(a.Str))
	case "c":
		return append(out, fmt.Sprintf("c:%d", a.Chr))
	case "n":
		return append(out, "n")
	case "l":
		out = append(out, fmt.Sprintf("L%d", len(a.List)))
		for _, x := range a.List {
			out = x.wire(out)
		}
		return out
	}
	panic("fArg.wire: kind " + a.Kind)
}

// lisp: human readable source form (replay files, evidence)
func (a fArg) lisp(top bool) string {
	q := ""
	if top {
		q = "'"
	}
	switch a.Kind {
	case "i":
		return a.Int
	case "s":
		return fmt.Sprintf("%q", c15Clip(a.Str))
	case "y":
		if strings.HasPrefix(a.Str, ":") {
			return a.Str
		}
		return q + a.Str
	case "c":
		if n, ok := c15CharNames[rune(a.Chr)]; ok {
			return `#\` + n
		}
		return `#\` + string(rune(a.Chr))
	case "n":
		return "nil"
	case "l":
		parts := make([]string, len(a.List))
		for i, x := range a.List {
			parts[i] = x.lisp(false)
		}
		return q + "(" + strings.Join(parts, " ") + ")"
	case "raw":
		return a.Raw
	}
	return "?"
}

var c15CharNames = map[rune]string{' ': "Space", '\n': "Newline", '\t': "Tab", '\f': "Page", '\r': "Return", '\b': "Backspace", 0x7f: "Rubout"}

// object builds a fresh slip object (never shared between cases).
func (a fArg) object(scope *slip.Scope) slip.Object {
	switch a.Kind {
	case "i":
		n, ok := new(big.Int).SetString(a.Int, 10)
		if !ok {
			panic("bad integer " + a.Int)
		}
		if n.IsInt64() {
			return slip.Fixnum(n.Int64())
		}
		return (*slip.Bignum)(n)
	case "s":
		return slip.String(a.Str)
	case "y":
		return slip.Symbol(a.Str)
	case "c":
		return slip.Character(rune(a.Chr))
	case "n":
		return nil
	case "l":
		l := make(slip.List, len(a.List))
		for i, x := range a.List {
			l[i] = x.object(scope)
		}
		return l
	case "raw":
		code := slip.ReadString(a.Raw, scope)
		var result slip.Object
		for _, obj := range code {
			result = scope.Eval(obj, 0)
		}
		return result
	}
	panic("fArg.object: kind " + a.Kind)
}

// class: the argument class used in signatures
func (a fArg) class() string {
	switch a.Kind {
	case "i":
		n, _ := new(big.Int).SetString(a.Int, 10)
		s := "+"
		if n.Sign() < 0 {
			s = "-"
		} else if n.Sign() == 0 {
			return "int0"
		}
		if n.IsInt64() {
			return "fix" + s
		}
		return "big" + s
	case "s":
		return "string"
	case "y":
		return "symbol"
	case "c":
		return "char"
	case "n":
		return "nil"
	case "l":
		return fmt.Sprintf("list%d", len(a.List))
	}
	return a.Kind
}

// ---------------------------------------------------------------------------------------------
// cases

// fCase is one evaluation. Mode:
//   fmt     (format nil ctrl args…)                         compared with the model
//   princ   ~A / ~S against princ, prin1, princ-to-string … (implementation only)
//   dest    nil vs string stream vs t destinations           (implementation only, + model stream entry)
type fCase struct {
	Mode  string `json:"mode"`
	Ctrl  string `json:"ctrl"`
	Args  []fArg `json:"args"`
	Cell  string `json:"cell,omitempty"` // sweep cell (signature without aspect); "" for composite cases
	Sweep bool   `json:"sweep"`
	Inst  int    `json:"inst"`           // index inside the cell
	NoErrCheck bool `json:"noerr,omitempty"` // model error is not compared (illegal input, outside the quantifier)
	Expect string `json:"expect,omitempty"`  // mode oracle: the text an independent Go oracle expects
	Units  []fUnit `json:"units,omitempty"`  // composite sequences: the top-level units (for shrinking)
	Env    []fBind `json:"env,omitempty"`    // mode env: the printer variables bound around the call
}

// fUnit: one top-level unit of a composite control string with the arguments it consumes.
type fUnit struct {
	Ctrl string `json:"ctrl"`
	Args []fArg `json:"args"`
	Print   string `json:"print,omitempty"`   // mode env: "princ" / "prin1" — the unit is a bare ~A / ~S
	NoModel bool   `json:"nomodel,omitempty"` // mode env: a directive outside the model
}

func (cs fCase) request() string {
	switch cs.Mode {
	case "env":
		return c15EnvRequest(cs)
	case "rlist":
		return c15RListRequest(cs)
	}
	parts := []string{"fmt", "run", lib.Hex(cs.Ctrl)}
	for _, a := range cs.Args {
		parts = a.wire(parts)
	}
	return strings.Join(parts, " ")
}

func (cs fCase) lisp() string {
	if cs.Mode == "seq" {
		var calls []string
		for _, u := range cs.Units {
			calls = append(calls, fCase{Ctrl: u.Ctrl, Args: u.Args}.lisp())
		}
		return "(list " + strings.Join(calls, " ") + ")"
	}
	if cs.Mode == "rlist" {
		if len(cs.Args) == 1 {
			return fmt.Sprintf("(format nil %q %s)", cs.Ctrl, cs.Args[0].Int)
		}
		return fmt.Sprintf("(mapcar (lambda (n) (format nil %q n)) '(%s … %s)) ; %d integers", cs.Ctrl, cs.Args[0].Int, cs.Args[len(cs.Args)-1].Int, len(cs.Args))
	}
	parts := []string{"(format nil", fmt.Sprintf("%q", cs.Ctrl)}
	for _, a := range cs.Args {
		parts = append(parts, a.lisp(true))
	}
	if cs.Mode == "env" {
		return c15EnvLet(cs.Env) + strings.Join(parts, " ") + "))"
	}
	return strings.Join(parts, " ") + ")"
}

// implResult is what the implementation did for one case.
type implResult struct {
	Ok      bool     `json:"ok"`
	Text    string   `json:"text,omitempty"`   // mode fmt: the string returned
	Class   string   `json:"class,omitempty"`  // condition class when !Ok
	Msg     string   `json:"msg,omitempty"`    // never compared
	GoFault bool     `json:"gofault,omitempty"`
	Hang    bool     `json:"hang,omitempty"`   // the worker had to be killed (deadline / memory)
	Extra   []string `json:"extra,omitempty"`  // modes princ/dest: the other observations (see c15Impl)
	Mutated bool     `json:"mutated,omitempty"`
}

func (r implResult) String() string {
	switch {
	case r.Hang:
		return "hang (worker killed)"
	case r.Ok:
		return fmt.Sprintf("ok %q", c15Clip(r.Text))
	case r.GoFault:
		return "err " + r.Class + " [go runtime fault]"
	}
	return "err " + r.Class
}

// c15Impl evaluates one case on the implementation (runs inside a worker process).
func c15Impl(cs fCase) (res implResult) {
	scope := slip.NewScope()
	defer func() {
		// conditions raised while building raw arguments
		if r := recover(); r != nil {
			res = implResult{Class: "harness-build", Msg: fmt.Sprint(r)}
		}
	}()
	names := make([]string, len(cs.Args))
	before := make([]string, len(cs.Args))
	objs := make([]slip.Object, len(cs.Args))
	for i, a := range cs.Args {
		names[i] = fmt.Sprintf("arg%d", i)
		objs[i] = a.object(scope)
		before[i] = slip.ObjectString(objs[i])
		scope.Let(slip.Symbol(names[i]), objs[i])
	}
	scope.Let(slip.Symbol("ctl"), slip.String(cs.Ctrl))
	argv := strings.Join(names, " ")
	eval := func(src string) implResult {
		o := lib.EvalString(scope, src)
		if !o.Ok {
			return implResult{Class: o.Class, Msg: o.Msg, GoFault: o.GoFault}
		}
		s, isStr := o.Value.(slip.String)
		if !isStr {
			return implResult{Class: "not-a-string", Msg: o.Text}
		}
		return implResult{Ok: true, Text: string(s)}
	}
	show := func(r implResult) string {
		if r.Ok {
			return "ok " + r.Text
		}
		return "err " + r.Class
	}
	switch cs.Mode {
	case "fmt", "oracle":
		res = eval("(format nil ctl " + argv + ")")
	case "princ":
		// ctl is "~a" or "~s" with one argument
		res = eval("(format nil ctl arg0)")
		fn := "princ"
		if strings.EqualFold(cs.Ctrl, "~s") {
			fn = "prin1"
		}
		res.Extra = []string{
			show(eval("(with-output-to-string (s) (" + fn + " arg0 s))")),
			show(eval("(" + fn + "-to-string arg0)")),
		}
	case "dest":
		res = eval("(format nil ctl " + argv + ")")
		// every other destination kind, summarised relative to the nil destination's text
		rel := func(r implResult, want string) string {
			if !r.Ok {
				if !res.Ok {
					return "same" // both raise a condition (class not compared)
				}
				return "err " + r.Class
			}
			if !res.Ok {
				return fmt.Sprintf("ok (%d bytes) while nil destination raised %s", len(r.Text), res.Class)
			}
			if r.Text == want {
				return "same"
			}
			return c15DiffSummary(r.Text, want)
		}
		lisp := func(src string) string { return rel(eval(src), res.Text) }
		gobuf := &bytes.Buffer{}
		scope.Let(slip.Symbol("gostream"), &slip.OutputStream{Writer: gobuf})
		var fileRes string
		if f, err := os.CreateTemp("/var/tmp", "c15-dest-*"); err == nil {
			scope.Let(slip.Symbol("gofile"), &slip.OutputStream{Writer: f})
			o := lib.EvalString(scope, "(format gofile ctl "+argv+")")
			f.Close()
			b, _ := os.ReadFile(f.Name())
			os.Remove(f.Name())
			if o.Ok {
				fileRes = rel(implResult{Ok: true, Text: string(b)}, res.Text)
			} else {
				fileRes = rel(implResult{Class: o.Class}, res.Text)
			}
		} else {
			fileRes = "same"
		}
		res.Extra = []string{
			lisp("(with-output-to-string (s) (format s ctl " + argv + "))"),
			lisp("(let ((s (make-string-output-stream))) (format s ctl " + argv + ") (get-output-stream-string s))"),
			lisp("(with-output-to-string (*standard-output*) (format t ctl " + argv + "))"),
			rel(eval("(with-output-to-string (s) (write-string \"pre|\" s) (format s ctl "+argv+"))"), "pre|"+res.Text),
			func() string { // the value returned for a stream destination is nil
				o := lib.EvalString(scope, "(let ((s (make-string-output-stream))) (format s ctl "+argv+"))")
				if !o.Ok {
					if !res.Ok {
						return "same"
					}
					return "err " + o.Class
				}
				if o.Text == "nil" {
					return "same"
				}
				return "value " + o.Text
			}(),
			lisp("(let* ((a (make-string-output-stream)) (b (make-string-output-stream)) (bs (make-broadcast-stream a b))) (format bs ctl " + argv + ") (get-output-stream-string a))"),
			lisp("(let* ((a (make-string-output-stream)) (b (make-string-output-stream)) (bs (make-broadcast-stream a b))) (format bs ctl " + argv + ") (get-output-stream-string b))"),
			lisp("(let* ((a (make-string-output-stream)) (tw (make-two-way-stream (make-string-input-stream \"\") a))) (format tw ctl " + argv + ") (get-output-stream-string a))"),
			lisp("(let* ((a (make-string-output-stream)) (ec (make-echo-stream (make-string-input-stream \"\") a))) (format ec ctl " + argv + ") (get-output-stream-string a))"),
			func() string {
				o := lib.EvalString(scope, "(format gostream ctl "+argv+")")
				if !o.Ok {
					return rel(implResult{Class: o.Class}, res.Text)
				}
				return rel(implResult{Ok: true, Text: gobuf.String()}, res.Text)
			}(),
			fileRes,
		}
	case "env":
		let := c15EnvLet(cs.Env)
		res = eval(let + "(format nil ctl " + argv + "))")
		var pf []string
		for k, u := range cs.Units {
			var unames []string
			for i, a := range u.Args {
				n := fmt.Sprintf("u%da%d", k, i)
				scope.Let(slip.Symbol(n), a.object(scope))
				unames = append(unames, n)
			}
			cn := fmt.Sprintf("uctl%d", k)
			scope.Let(slip.Symbol(cn), slip.String(u.Ctrl))
			res.Extra = append(res.Extra, show(eval(let+"(format nil "+cn+" "+strings.Join(unames, " ")+"))")))
			if u.Print != "" && len(unames) == 1 {
				pf = append(pf, fmt.Sprintf("pf%d %s", k, show(eval(let+"("+u.Print+"-to-string "+unames[0]+"))"))))
			}
		}
		res.Extra = append(res.Extra, pf...)
	case "rlist":
		// one call per integer; the texts joined by newlines, "!" for a condition
		var b strings.Builder
		res = implResult{Ok: true}
		for _, a := range cs.Args {
			scope.Let(slip.Symbol("n"), a.object(scope))
			o := lib.EvalString(scope, "(format nil ctl n)")
			if t, isStr := o.Value.(slip.String); o.Ok && isStr {
				b.WriteString(string(t))
			} else {
				if o.GoFault {
					res.GoFault = true
				}
				b.WriteByte('!')
			}
			b.WriteByte('\n')
		}
		res.Text = b.String()
	case "seq":
		// a history: the calls one after the other in this process, each with its own arguments
		res = implResult{Ok: true}
		for k, u := range cs.Units {
			sub := slip.NewScope()
			var names []string
			var uobjs []slip.Object
			var ubefore []string
			for i, a := range u.Args {
				n := fmt.Sprintf("h%da%d", k, i)
				o := a.object(sub)
				sub.Let(slip.Symbol(n), o)
				names = append(names, n)
				uobjs = append(uobjs, o)
				ubefore = append(ubefore, slip.ObjectString(o))
			}
			sub.Let(slip.Symbol("ctl"), slip.String(u.Ctrl))
			o := lib.EvalString(sub, "(format nil ctl "+strings.Join(names, " ")+")")
			switch {
			case !o.Ok && o.GoFault:
				res.Extra = append(res.Extra, "go-fault "+o.Class)
			case !o.Ok:
				res.Extra = append(res.Extra, "err "+o.Class)
			default:
				if t, isStr := o.Value.(slip.String); isStr {
					res.Extra = append(res.Extra, "ok "+string(t))
				} else {
					res.Extra = append(res.Extra, "err not-a-string")
				}
			}
			for i := range uobjs {
				if slip.ObjectString(uobjs[i]) != ubefore[i] {
					res.Mutated = true
				}
			}
		}
	default:
		res = implResult{Class: "harness-mode"}
	}
	for i := range objs {
		if slip.ObjectString(objs[i]) != before[i] {
			res.Mutated = true
		}
	}
	return
}

// ---------------------------------------------------------------------------------------------
// workers: the implementation runs in subprocesses (`vh C15` with VH_C15_WORKER=1); a case that
// exceeds its deadline or the memory cap kills only its worker.

const c15MemCap = 3 << 30

// A case is a runaway only by what it CONSUMES, never by the clock: the worker must have burnt
// c15CPUBudget seconds of CPU time on the one case (a format call needs milliseconds), or have hit the
// memory cap. Wall time only decides when to look: on a loaded or slow machine a starved worker that
// has not used its CPU budget is simply waited for. A worker that uses no CPU at all for c15StallLimit
// looks (blocked, stopped) is a machinery error (exit 2), not a verdict about slip.
const (
	c15CPUBudget  = 40.0 // CPU seconds (user + system) of the worker process since its last reply
	c15LookEvery  = 5 * time.Second
	c15StallLimit = 240 // looks without any CPU progress and without a reply (20 minutes of wall time)
)

// c15CPUSeconds: user + system CPU time of a process from /proc/<pid>/stat (clock ticks of 1/100 s);
// ok = false when it cannot be read (the process is gone)
func c15CPUSeconds(pid int) (float64, bool) {
	b, err := os.ReadFile(fmt.Sprintf("/proc/%d/stat", pid))
	if err != nil {
		return 0, false
	}
	s := string(b)
	k := strings.LastIndexByte(s, ')') // the command name may contain blanks and parentheses
	if k < 0 {
		return 0, false
	}
	f := strings.Fields(s[k+1:]) // f[0] = state (field 3); utime = field 14, stime = field 15
	if len(f) < 13 {
		return 0, false
	}
	var ut, st float64
	if _, err := fmt.Sscan(f[11], &ut); err != nil {
		return 0, false
	}
	if _, err := fmt.Sscan(f[12], &st); err != nil {
		return 0, false
	}
	return (ut + st) / 100, true
}

func c15Worker() {
	go func() { // memory watchdog: a runaway directive must not exhaust the machine
		var ms runtime.MemStats
		for {
			time.Sleep(50 * time.Millisecond)
			runtime.ReadMemStats(&ms)
			if ms.HeapAlloc > c15MemCap {
				os.Exit(3)
			}
		}
	}()
	in := bufio.NewReaderSize(os.Stdin, 1<<20)
	out := bufio.NewWriter(os.Stdout)
	for {
		line, err := in.ReadBytes('\n')
		if len(line) > 1 {
			var cs fCase
			if e := json.Unmarshal(line, &cs); e != nil {
				// a truncated line: the parent went away (it killed or abandoned this worker)
				os.Exit(0)
			}
			res := c15Impl(cs)
			b, _ := json.Marshal(res)
			out.Write(b)
			out.WriteByte('\n')
			out.Flush()
		}
		if err != nil {
			return
		}
	}
}

// c15RunImpl evaluates all cases in nWorkers subprocesses; results in case order.
func c15RunImpl(cases []fCase, nWorkers int) []implResult {
	results := make([]implResult, len(cases))
	if len(cases) == 0 {
		return results
	}
	if nWorkers > len(cases) {
		nWorkers = 1
	}
	var wg sync.WaitGroup
	chunk := (len(cases) + nWorkers - 1) / nWorkers
	for w := 0; w < nWorkers; w++ {
		lo, hi := w*chunk, (w+1)*chunk
		if hi > len(cases) {
			hi = len(cases)
		}
		if lo >= hi {
			break
		}
		wg.Add(1)
		go func(lo, hi int) {
			defer wg.Done()
			c15RunChunk(cases, results, lo, hi)
		}(lo, hi)
	}
	wg.Wait()
	// a case whose worker was lost is run again on its own in a fresh worker before it counts as a hang
	// (a neighbour's runaway case, a loaded machine or a killed process must not raise an alarm)
	for i := range results {
		if results[i].Hang {
			for try := 0; try < 2 && results[i].Hang; try++ {
				c15RunChunk(cases, results, i, i+1)
			}
		}
	}
	return results
}

func c15RunChunk(cases []fCase, results []implResult, lo, hi int) {
	i := lo
	for i < hi {
		cmd := exec.Command(os.Args[0], "C15")
		cmd.Env = append(os.Environ(), "VH_C15_WORKER=1")
		stdin, _ := cmd.StdinPipe()
		stdout, _ := cmd.StdoutPipe()
		cmd.Stderr = os.Stderr
		if err := cmd.Start(); err != nil {
			fmt.Fprintln(os.Stderr, "cannot start worker:", err)
			os.Exit(2)
		}
		lines := make(chan []byte, 64)
		go func() {
			rd := bufio.NewReaderSize(stdout, 1<<20)
			for {
				l, err := rd.ReadBytes('\n')
				if len(l) > 1 {
					lines <- l
				}
				if err != nil {
					close(lines)
					return
				}
			}
		}()
		// feed in a goroutine so that a blocked worker cannot block us
		start := i
		go func() {
			w := bufio.NewWriterSize(stdin, 1<<20)
			for j := start; j < hi; j++ {
				b, _ := json.Marshal(cases[j])
				if _, err := w.Write(append(b, '\n')); err != nil {
					return
				}
				if (j-start)%64 == 63 {
					w.Flush()
				}
			}
			w.Flush()
			stdin.Close()
		}()
		dead := false
		cpuAtReply, _ := c15CPUSeconds(cmd.Process.Pid) // CPU time of the worker when it last replied
		lastCPU, stalled := cpuAtReply, 0
		for i < hi && !dead {
			select {
			case l, ok := <-lines:
				if !ok {
					// worker died (memory cap / fatal error) while evaluating case i
					results[i] = implResult{Hang: true, Class: "worker-died"}
					i++
					dead = true
					break
				}
				if err := json.Unmarshal(l, &results[i]); err != nil {
					fmt.Fprintln(os.Stderr, "bad worker reply:", err)
					os.Exit(2)
				}
				i++
				if cpu, ok := c15CPUSeconds(cmd.Process.Pid); ok {
					cpuAtReply, lastCPU = cpu, cpu
				}
				stalled = 0
			case <-time.After(c15LookEvery):
				cpu, ok := c15CPUSeconds(cmd.Process.Pid)
				switch {
				case !ok:
					// the process is gone; the closed pipe reports it on the next turn
				case cpu-cpuAtReply >= c15CPUBudget:
					results[i] = implResult{Hang: true, Class: "cpu-budget"}
					i++
					dead = true
				case cpu > lastCPU:
					lastCPU, stalled = cpu, 0 // working (or starved but progressing): wait
				default:
					stalled++
					if stalled >= c15StallLimit {
						fmt.Fprintf(os.Stderr, "worker %d makes no progress and uses no CPU on %s: machinery error\n", cmd.Process.Pid, cases[i].lisp())
						_ = cmd.Process.Kill()
						os.Exit(2)
					}
				}
			}
		}
		_ = cmd.Process.Kill()
		_, _ = io.Copy(io.Discard, stdout)
		_ = cmd.Wait()
	}
}

// ---------------------------------------------------------------------------------------------
// comparison and signatures

func c15ModelText(reply string) (text string, ok bool, errClass string) {
	w := strings.Fields(reply)
	if len(w) == 2 && w[0] == "ok" {
		return lib.Unhex(w[1]), true, ""
	}
	if len(w) == 2 && w[0] == "err" {
		return "", false, w[1]
	}
	fmt.Fprintf(os.Stderr, "unexpected model reply %q\n", reply)
	os.Exit(2)
	return
}

// c15Aspect: "" = agreement on what the property constrains.
func c15Aspect(cs fCase, impl implResult, model string) string {
	mtext, mok, merr := c15ModelText(model)
	if impl.Hang {
		return "hang"
	}
	if impl.Mutated {
		return "argument-mutated"
	}
	if mok {
		if !impl.Ok {
			if impl.GoFault {
				return "go-fault"
			}
			return "condition"
		}
		if impl.Text != mtext {
			return "text"
		}
		return ""
	}
	// the model rejects the input
	switch merr {
	case "fuel", "unsupported":
		fmt.Fprintf(os.Stderr, "harness bug: the model answered %q for %s\n", model, cs.lisp())
		os.Exit(2)
	}
	if cs.NoErrCheck {
		return ""
	}
	if impl.Ok {
		return "no-condition"
	}
	return "" // both reject; the condition class is C09's business
}

// c15HasRaw: an argument that exists on the implementation only (no model request possible)
func c15HasRaw(args []fArg) bool {
	for _, a := range args {
		if a.Kind == "raw" || (a.Kind == "l" && c15HasRaw(a.List)) {
			return true
		}
	}
	return false
}

// c15Modelled: the case has a model request
func c15Modelled(cs fCase) bool {
	return cs.Mode == "fmt" || cs.Mode == "oracle" || cs.Mode == "rlist" || ((cs.Mode == "dest" || cs.Mode == "env") && !c15HasRaw(cs.Args))
}

// c15CaseAspect: the aspect of one case of any mode ("" = agreement). Mode dest is compared with the
// model (the nil destination's text) AND across the destination kinds.
func c15CaseAspect(cs fCase, impl implResult, model string) string {
	switch cs.Mode {
	case "fmt":
		return c15Aspect(cs, impl, model)
	case "env":
		return c15EnvAspect(cs, impl, model)
	case "rlist":
		if impl.Hang {
			return "hang"
		}
		if impl.GoFault {
			return "go-fault"
		}
		_, kind, _, _ := c15RListFirstBad(cs, impl, model)
		return kind
	case "seq":
		if impl.Hang {
			return "hang"
		}
		if impl.Mutated {
			return "argument-mutated"
		}
		replies := strings.Split(model, "\n")
		if len(replies) != len(cs.Units) || len(impl.Extra) != len(cs.Units) {
			fmt.Fprintf(os.Stderr, "harness bug: history of %d calls has %d model replies and %d observations\n", len(cs.Units), len(replies), len(impl.Extra))
			os.Exit(2)
		}
		for k, u := range cs.Units {
			one := implResult{}
			switch {
			case strings.HasPrefix(impl.Extra[k], "ok "):
				one = implResult{Ok: true, Text: strings.TrimPrefix(impl.Extra[k], "ok ")}
			case strings.HasPrefix(impl.Extra[k], "go-fault "):
				one = implResult{GoFault: true, Class: strings.TrimPrefix(impl.Extra[k], "go-fault ")}
			default:
				one = implResult{Class: strings.TrimPrefix(impl.Extra[k], "err ")}
			}
			if a := c15Aspect(fCase{Mode: "fmt", Ctrl: u.Ctrl, Args: u.Args}, one, replies[k]); a != "" {
				return fmt.Sprintf("call%d-%s", k+1, a)
			}
		}
		return ""
	case "dest":
		if model != "" {
			if a := c15Aspect(cs, impl, model); a != "" {
				return a
			}
		}
	}
	return c15RelationAspect(cs, impl, model)
}

func c15Clip(s string) string {
	if len(s) <= 400 {
		return s
	}
	return fmt.Sprintf("%s …[%d bytes]… %s", s[:160], len(s), s[len(s)-160:])
}

func c15Digest(parts []string) string {
	h := sha256.Sum256([]byte(strings.Join(parts, "\x00")))
	return hex.EncodeToString(h[:4])
}

// ---------------------------------------------------------------------------------------------
// replay

func c15Replay(c *lib.Ctx) {
	var rec struct {
		Cases []fCase `json:"cases"`
	}
	if err := lib.ReadJSON(c.Replay, &rec); err != nil || len(rec.Cases) == 0 {
		fmt.Println("cannot read replay file / no cases in it:", err)
		return
	}
	for _, cs := range rec.Cases {
		impl := c15RunImpl([]fCase{cs}, 1)[0]
		fmt.Printf("replay %s\n", cs.lisp())
		bad := false
		model := ""
		if cs.Mode == "seq" {
			var rq []string
			for _, u := range cs.Units {
				rq = append(rq, fCase{Ctrl: u.Ctrl, Args: u.Args}.request())
			}
			rs := c.Model(rq)
			model = strings.Join(rs, "\n")
			for k, r := range rs {
				if mt, mok, merr := c15ModelText(r); mok {
					fmt.Printf("  call %d expected (model): ok %q\n", k+1, c15Clip(mt))
				} else {
					fmt.Printf("  call %d expected (model): err %s\n", k+1, merr)
				}
			}
		} else if c15Modelled(cs) {
			model = c.Model([]string{cs.request()})[0]
			if mt, mok, merr := c15ModelText(model); mok {
				fmt.Printf("  expected (model): ok %q\n", c15Clip(mt))
			} else {
				fmt.Printf("  expected (model): err %s\n", merr)
			}
		}
		if cs.Mode == "oracle" {
			fmt.Printf("  expected (oracle): ok %q\n", cs.Expect)
		}
		if cs.Mode != "seq" {
			fmt.Printf("  observed        : %s %s\n", impl, impl.Msg)
		}
		for i, e := range impl.Extra {
			name := fmt.Sprint("related ", i)
			if cs.Mode == "seq" {
				name = fmt.Sprintf("call %d observed", i+1)
			}
			if cs.Mode == "dest" && i < len(c15DestNames) {
				name = c15DestNames[i]
			}
			fmt.Printf("  %-28s: %s\n", name, e)
		}
		aspect := c15CaseAspect(cs, impl, model)
		if aspect != "" {
			fmt.Printf("  disagreement    : %s\n", aspect)
		}
		bad = aspect != ""
		if bad {
			c.Report("replay", false, map[string]any{"input": cs.lisp()})
		}
	}
}

var c15DestNames = []string{"with-output-to-string", "make-string-output-stream", "t", "appended-to-stream", "stream-destination-value",
	"broadcast-stream-first", "broadcast-stream-second", "two-way-stream", "echo-stream", "go-writer-stream", "file-stream"}

// c15DiffSummary describes how got differs from want without carrying both (possibly long) texts.
func c15DiffSummary(got, want string) string {
	i := 0
	for i < len(got) && i < len(want) && got[i] == want[i] {
		i++
	}
	clip := func(s string) string {
		lo, hi := i-12, i+20
		if lo < 0 {
			lo = 0
		}
		if hi > len(s) {
			hi = len(s)
		}
		return fmt.Sprintf("%q", s[lo:hi])
	}
	return fmt.Sprintf("differs: %d bytes instead of %d, first difference at byte %d: got …%s want …%s", len(got), len(want), i, clip(got), clip(want))
}

// c15RelationAspect checks the implementation-only relations of modes princ and dest.
func c15RelationAspect(cs fCase, impl implResult, model string) string {
	if impl.Hang {
		return "hang"
	}
	self := "err " + impl.Class
	if impl.Ok {
		self = "ok " + impl.Text
	}
	switch cs.Mode {
	case "oracle":
		// the model reads the same regenerated tables as the implementation: a wrong table entry shows
		// as "implementation = model ≠ oracle"; everything else is the correspondence's business
		if mt, mok, _ := c15ModelText(model); impl.Ok && mok && impl.Text == mt && impl.Text != cs.Expect {
			return "text-vs-oracle"
		}
	case "princ":
		// Extra[0] = princ/prin1 to a string stream, Extra[1] = princ-to-string / prin1-to-string
		if impl.Extra[0] != self {
			return "differs-from-print-function"
		}
		if impl.Extra[1] != self {
			return "differs-from-to-string-function"
		}
	case "dest":
		for i, e := range impl.Extra {
			if e != "same" {
				return c15DestNames[i] + "-differs"
			}
		}
	}
	return ""
}

// ---------------------------------------------------------------------------------------------
// run

func runC15(c *lib.Ctx) {
	if os.Getenv("VH_C15_WORKER") != "" {
		c15Worker()
		os.Exit(0)
	}
	if c.Replay != "" {
		c15Replay(c)
		return
	}
	avoid := func(prefix string) bool { return c.Findings.Listed("C15", prefix) }
	sweep := c15SweepCases(c.Thorough())
	comp := c15CompositeCases(c.Rng, c.Scale(8000, 1200000), avoid)
	sweep = append(sweep, c15LongDestCases(c.Thorough())...)
	sweep = append(sweep, c15EnvCases(c.Thorough())...)
	sweep = append(sweep, c15RListCases(c.Thorough())...)
	comp = append(comp, c15EnvComposite(c.Rng, c.Scale(600, 30000), avoid)...)
	comp = append(comp, c15CompositeDest(c.Rng, c.Scale(300, 4000), c.Thorough(), avoid)...)
	// the histories are the first cases of the first worker: a fresh process
	cases := append(append(append([]fCase{}, c15HistoryCases()...), sweep...), comp...)

	var reqs []string
	var reqIdx []int
	for i, cs := range cases {
		if cs.Mode == "seq" {
			for _, u := range cs.Units {
				reqs = append(reqs, fCase{Ctrl: u.Ctrl, Args: u.Args}.request())
				reqIdx = append(reqIdx, i)
			}
		} else if c15Modelled(cs) {
			reqs = append(reqs, cs.request())
			reqIdx = append(reqIdx, i)
		}
	}
	replies := make([]string, len(cases))
	seen := make([]bool, len(cases))
	for k, r := range c.Model(reqs) {
		if seen[reqIdx[k]] {
			replies[reqIdx[k]] += "\n" + r // a history: one reply per call
		} else {
			replies[reqIdx[k]], seen[reqIdx[k]] = r, true
		}
	}
	nw := 6
	if n := runtime.NumCPU() / 2; n < nw {
		nw = n
	}
	if nw < 1 {
		nw = 1
	}
	results := c15RunImpl(cases, nw)

	// cells: group the sweep instances
	type cellAcc struct {
		aspects map[string]bool
		obs     []string
		bad     []fCase
		first   map[string]any
	}
	cells := map[string]*cellAcc{}
	var cellOrder []string
	var triage strings.Builder
	var compSigs []string
	var compRecs []map[string]any
	agree, modelRejected := 0, 0
	for i, cs := range cases {
		impl := results[i]
		aspect := ""
		aspect = c15CaseAspect(cs, impl, replies[i])
		if cs.Mode == "fmt" {
			if _, mok, _ := c15ModelText(replies[i]); !mok {
				modelRejected++
			}
		}
		if cs.Mode == "dest" {
			n := len(impl.Text)
			b := "<1K"
			switch {
			case n >= 65536:
				b = ">=64K"
			case n >= 16384:
				b = "16K-64K"
			case n >= 4096:
				b = "4K-16K"
			case n >= 1024:
				b = "1K-4K"
			}
			c.Ev.Hist("dest_output_bytes", b)
		}
		nontrivial := strings.ContainsAny(cs.Ctrl, ":@,#v'0123456789") || strings.Count(cs.Ctrl, "~") >= 2
		c.Ev.Case(cs.Ctrl+"\x00"+fmt.Sprint(cs.Args), nontrivial)
		c.Ev.Hist("mode", cs.Mode)
		c.Ev.Hist("directives", fmt.Sprint(strings.Count(cs.Ctrl, "~")))
		for _, d := range c15Directives(cs.Ctrl) {
			c.Ev.Hist("directive", d)
		}
		if cs.Mode == "fmt" {
			if _, mok, merr := c15ModelText(replies[i]); !mok {
				c.Ev.Hist("model_error", merr)
			}
			if !impl.Ok && !impl.Hang {
				c.Ev.Hist("impl_condition", impl.Class)
			}
		}
		if cs.Sweep {
			c.Ev.Count("sweep_cases", 1)
		} else {
			c.Ev.Count("composite_cases", 1)
			for _, a := range cs.Args {
				c.Ev.Hist("composite_arg", a.class())
			}
		}
		if i%(len(cases)/12+1) == 0 {
			c.Ev.Sample(map[string]string{"case": cs.lisp(), "impl": impl.String(), "model": c15Clip(replies[i])})
		}
		if aspect == "" {
			agree++
			continue
		}
		expected := replies[i]
		if cs.Mode == "fmt" || cs.Mode == "dest" || cs.Mode == "env" {
			if t, ok, _ := c15ModelText(orOkEmpty(replies[i])); ok {
				expected = fmt.Sprintf("ok %q", c15Clip(t))
			}
		}
		rec := map[string]any{"input": cs.lisp(), "cases": []fCase{cs}, "observed": impl.String(), "observed_related": impl.Extra,
			"expected": expected, "expected_from": "model:fmt.run", "relies_on": []string{"SlipVerif.Theorems.C15"}}
		if cs.Mode == "seq" {
			var exp []string
			for _, r := range strings.Split(replies[i], "\n") {
				if t, ok, merr := c15ModelText(r); ok {
					exp = append(exp, fmt.Sprintf("ok %q", t))
				} else {
					exp = append(exp, "err "+merr)
				}
			}
			rec["observed"] = strings.Join(impl.Extra, " ; ")
			rec["expected"] = strings.Join(exp, " ; ")
			rec["expected_from"] = "model:fmt.run for every call of the history (the calls are evaluated in this order in one fresh process)"
		} else if cs.Mode == "env" {
			rec["expected"] = expected + "; = the texts of its directives in separate calls joined by \"|\"; a bare ~A / ~S = princ-to-string / prin1-to-string under the same bindings"
			rec["expected_from"] = "model:fmt.runenv (printer variables are the context of the whole call) + Theorems.C15Runs.runs_append + property statement (~A = princ, ~S = prin1)"
		} else if cs.Mode == "rlist" {
			if idx, kind, got, want := c15RListFirstBad(cs, impl, replies[i]); idx >= 0 && idx < len(cs.Args) {
				one := fCase{Mode: "fmt", Ctrl: cs.Ctrl, Args: []fArg{cs.Args[idx]}, Cell: cs.Cell, Sweep: true, Inst: cs.Inst}
				rec["expected_from"] = "model:fmt.rlist (first failing integer of the batch)"
				if kind == "text-vs-oracle" {
					one.Mode, one.Expect = "oracle", want
					rec["expected_from"] = "independent Go oracle for English numerals (first failing integer of the batch)"
				}
				rec["input"], rec["cases"], rec["observed"], rec["expected"] = one.lisp(), []fCase{one}, fmt.Sprintf("%q", got), fmt.Sprintf("%q", want)
				cs = one
				impl = implResult{Ok: got != "!", Text: got}
			}
		} else if cs.Mode == "oracle" {
			rec["expected"] = fmt.Sprintf("ok %q", cs.Expect)
			rec["expected_from"] = "independent Go oracle for English / Roman numerals"
		} else if cs.Mode == "dest" {
			rec["expected"] = "nil destination: " + expected + "; every other destination kind receives the same text"
			rec["expected_from"] = "model:fmt.run + property statement (destination independence; Theorems.C15.dest_independent)"
			rec["destinations"] = c15DestNames
		} else if cs.Mode != "fmt" {
			rec["expected"] = "the related observations equal the (format nil …) text"
			rec["expected_from"] = "property statement (~A = princ, ~S = prin1, destination independence)"
		}
		if !cs.Sweep {
			// composite cases are never excused
			fmt.Fprintf(&triage, "COMPOSITE %s aspect=%s\n    observed %v\n    expected %v\n", cs.lisp(), aspect, rec["observed"], rec["expected"])
			compSigs = append(compSigs, fmt.Sprintf("composite ctrl=%q aspect=%s", c15Shape(cs.Ctrl), aspect))
			compRecs = append(compRecs, rec)
			continue
		}
		acc := cells[cs.Cell]
		if acc == nil {
			acc = &cellAcc{aspects: map[string]bool{}, first: rec}
			cells[cs.Cell] = acc
			cellOrder = append(cellOrder, cs.Cell)
		}
		acc.aspects[aspect] = true
		o := impl.String()
		if impl.Hang {
			o = "hang"
		}
		acc.obs = append(acc.obs, fmt.Sprintf("%d:%s:%s", cs.Inst, o, strings.Join(impl.Extra, "|")))
		acc.bad = append(acc.bad, cs)
	}
	defer func() { _ = os.WriteFile(c.OutDir+"/c15-disagreements.txt", []byte(triage.String()), 0o644) }()
	for _, cell := range cellOrder {
		acc := cells[cell]
		var as []string
		for a := range acc.aspects {
			as = append(as, a)
		}
		sort.Strings(as)
		sig := fmt.Sprintf("%s aspect=%s obs=%s", cell, strings.Join(as, "+"), c15Digest(acc.obs))
		acc.first["cases"] = acc.bad
		acc.first["failing_instances"] = len(acc.bad)
		fmt.Fprintf(&triage, "%s\n    n=%d  %v\n    observed %v\n    expected %v\n", sig, len(acc.bad), acc.first["input"], acc.first["observed"], acc.first["expected"])
		c.Report(sig, true, acc.first)
	}
	if c.GenBroken != "" {
		c15GenWitness(c)
	}
	// composite disagreements after the sweep cells (the cells carry the more telling signatures);
	// the first few are shrunk unit by unit (witness minimisation)
	for i := range compSigs {
		if i < 6 {
			if cases, ok := compRecs[i]["cases"].([]fCase); ok && len(cases) == 1 && len(cases[0].Units) > 1 {
				small := c15Shrink(c, cases[0])
				if len(small.Units) < len(cases[0].Units) {
					compRecs[i]["original_input"] = compRecs[i]["input"]
					compRecs[i]["input"] = small.lisp()
					compRecs[i]["cases"] = []fCase{small}
					impl := c15RunImpl([]fCase{small}, 1)[0]
					model := "err none"
					if c15Modelled(small) {
						model = c.Model([]string{small.request()})[0]
					}
					compRecs[i]["observed"] = impl.String()
					compRecs[i]["observed_related"] = impl.Extra
					if t, ok, _ := c15ModelText(model); ok {
						compRecs[i]["expected"] = fmt.Sprintf("ok %q", t)
					} else {
						compRecs[i]["expected"] = model
					}
				}
			}
		}
		c.Report(compSigs[i], false, compRecs[i])
	}
	c.Ev.Coverage["traces_validated_against_impl"] = len(cases)
	c.Ev.Coverage["agreements"] = agree
	c.Ev.Coverage["model_rejected_inputs"] = modelRejected
	c.Ev.Coverage["sweep_cells_failing"] = len(cellOrder)
	c.Ev.Coverage["disagreements_checked"] = len(cases) - agree
	c.Ev.Coverage["rule"] = "cases = (control string, argument tuple); sweep = per directive x modifiers x parameter class x argument class cells (exhaustive, seed independent; ~@R/~:@R over all of 1..3999) + cursor-boundary, no-argument-left, V/+ parameter and colinc-0 cells + nested conditionals (every inner kind in every clause of every outer kind, in- and out-of-range selectors) + histories (mode seq: several calls in one fresh process, each compared with the model, values unique to the history) + characters of every UTF-8 length class + printer-variable environments (mode env: pairs unusual-argument directive -> printer-dependent directive; model text, call = its directives in separate calls, ~A/~S = princ/prin1-to-string) + ~R/~:R ranges (mode rlist: exhaustive range and every period boundary, model and oracle; one case = one batch of integers) + implementation-only relations (~A=princ, ~S=prin1, destinations); composite = seeded random compositions of up to 4 directives incl. nesting, avoiding constructs listed in findings; non-trivial = a directive has a parameter or modifier, or >= 2 directives; distinct by (control, arguments)"
}

// c15Shrink removes top-level units (with their arguments) while the case still disagrees.
func c15Shrink(c *lib.Ctx, cs fCase) fCase {
	build := func(units []fUnit) fCase {
		out := fCase{Mode: cs.Mode, Units: units, Env: cs.Env}
		for i, u := range units {
			if cs.Mode == "env" && i > 0 {
				out.Ctrl += c15EnvSep
			}
			out.Ctrl += u.Ctrl
			out.Args = append(out.Args, u.Args...)
		}
		return out
	}
	cur := cs.Units
	for changed := true; changed && len(cur) > 1; {
		changed = false
		for i := range cur {
			cand := append(append([]fUnit{}, cur[:i]...), cur[i+1:]...)
			cc := build(cand)
			if cc.Ctrl == "" {
				continue
			}
			model := ""
			if c15Modelled(cc) {
				model = c.Model([]string{cc.request()})[0]
				if _, mok, _ := c15ModelText(model); !mok {
					continue // keep the witness inside the legal inputs
				}
			}
			impl := c15RunImpl([]fCase{cc}, 1)[0]
			if c15CaseAspect(cc, impl, model) != "" {
				cur, changed = cand, true
				break
			}
		}
	}
	return build(cur)
}

func orOkEmpty(s string) string {
	if s == "" {
		return "err none"
	}
	return s
}

// c15Directives: the directive characters of a control string (lower case), parameters skipped
func c15Directives(ctrl string) []string {
	var out []string
	rs := []rune(ctrl)
	for i := 0; i < len(rs); i++ {
		if rs[i] != '~' {
			continue
		}
		i++
		for i < len(rs) {
			if rs[i] == '\'' {
				i += 2
				continue
			}
			if strings.ContainsRune("0123456789,:@#vV+-", rs[i]) {
				i++
				continue
			}
			break
		}
		if i < len(rs) {
			out = append(out, strings.ToLower(string(rs[i])))
		}
	}
	return out
}

// c15Shape: the control string with literal text collapsed (signature of a composite disagreement)
func c15Shape(ctrl string) string {
	var b strings.Builder
	inDir := false
	lit := false
	quoted := false
	for _, r := range ctrl {
		switch {
		case quoted:
			b.WriteRune('c')
			quoted = false
		case inDir:
			b.WriteRune(r)
			if r == '\'' {
				quoted = true
			} else if !strings.ContainsRune("0123456789,:@#vV+-", r) {
				inDir = false
			}
		case r == '~':
			b.WriteRune(r)
			inDir = true
			lit = false
		default:
			if !lit {
				b.WriteRune('_')
				lit = true
			}
		}
	}
	return b.String()
}
