#!/usr/bin/env python3
"""Mutant self-test of the C02 check (see notes/C02.md). For every mutant: a scratch worktree of /repo with
repo-patches/C02/*.patch applied, the mutation, `go build`, the pinned suite (compared with the failures of the
unchanged tree in this sandbox), `VERIF_REPO=<wt> ./check C02 --seed 7`, then the worktree is removed.
usage: notes/C02-mutants.py [mutant-name …]   (run from the verif worktree root; takes 2-3 min per mutant)"""
import subprocess, sys, os, json, re, glob
ROOT=os.path.dirname(os.path.dirname(os.path.abspath(__file__)))
env=dict(os.environ, GOFLAGS='-mod=mod', GOPROXY='off')
base=None  # failing tests of the patched, unmutated tree (sandbox-related), computed on first use
def sh(cmd, cwd=None, e=env):
    return subprocess.run(cmd, shell=True, cwd=cwd, env=e, stdout=subprocess.PIPE, stderr=subprocess.STDOUT, text=True)
def edit(path, old, new, count=1):
    s=open(path).read()
    assert old in s, (path, old)
    s=s.replace(old,new,count)
    open(path,'w').write(s)
mutants={}
def M(name):
    def deco(f): mutants[name]=f; return f
    return deco
@M('M1-makeToken-keeps-carry')
def _(wt): edit(wt+'/code.go', "\tr.carry = r.carry[:0]\n\n\treturn token", "\n\treturn token")
@M('M2-one-position-after-list')
def _(wt): edit(wt+'/code.go', "case ')', '\"', '|':", "case '\"', '|':")
@M('M2b-one-position-on-closing-quote')
def _(wt): edit(wt+'/code.go', "case ')', '\"', '|':", "case ')', '|':")
@M('M3-tokenMode-quote-starts-string')
def _(wt): edit(wt+'/code.go', '\t\t"T...aa..TTaa.aaaaaaaaaaaaaa.aaa." + // 0x20\n\t\t"aaaaaaaaaaaaaaaaaaaaaaaaaaa...aa" + // 0x40', '\t\t"T.Q.aa..TTaa.aaaaaaaaaaaaaa.aaa." + // 0x20\n\t\t"aaaaaaaaaaaaaaaaaaaaaaaaaaa...aa" + // 0x40')
@M('M4-carry-not-saved-in-char-mode')
def _(wt): edit(wt+'/code.go', "case tokenMode, charMode, intMode, bitVectorMode:\n\t\t\tr.carry", "case tokenMode, intMode, bitVectorMode:\n\t\t\tr.carry")
@M('M5-push-does-not-clear-code')
def _(wt):
    s=open(wt+'/code.go').read()
    i=s.index('func ReadStreamPush')
    j=s.index('cr.code = cr.code[:0]', i)
    s=s[:j]+'_ = cr.code[:0]'+s[j+len('cr.code = cr.code[:0]'):]
    open(wt+'/code.go','w').write(s)
@M('M6-dotted-nil-keeps-tail')
def _(wt): edit(wt+'/code.go', "if list[len(list)-1] == nil {\n\t\t\t\tlist[len(list)-2] = nil\n\t\t\t} else {", "if false {\n\t\t\t\tlist[len(list)-2] = nil\n\t\t\t} else {")
@M('M7-string-pending-not-saved-at-block-end')
def _(wt): edit(wt+'/code.go', "\t\t\tif len(r.buf) == 0 && r.tokenStart < r.pos {\n\t\t\t\tr.buf = append(r.buf, src[r.tokenStart:r.pos]...)\n\t\t\t}\n\t\t}\n\t} else {", "\t\t}\n\t} else {")
@M('M8-eof-in-char-mode-drops-char')
def _(wt): edit(wt+'/code.go', "\t\tcase charMode:\n\t\t\tr.pushChar(src)\n\t\tcase intMode:", "\t\tcase intMode:")
@M('M9-escape-forgets-pending-when-block-starts-in-string')
def _(wt): edit(wt+'/code.go', "if len(r.buf) == 0 && r.tokenStart < r.pos {\n\t\t\t\tr.buf = append(r.buf, src[r.tokenStart:r.pos]...)\n\t\t\t}\n\t\t\tr.mode = escMode", "if len(r.buf) == 0 && 0 < r.tokenStart && r.tokenStart < r.pos {\n\t\t\t\tr.buf = append(r.buf, src[r.tokenStart:r.pos]...)\n\t\t\t}\n\t\t\tr.mode = escMode")
@M('H1-harmless-block-size-and-makeToken-rewrite')
def _(wt):
    edit(wt+'/code.go', "const readBlockSize = 65536", "const readBlockSize = 32768")
    edit(wt+'/code.go', "\ttoken := make([]byte, len(r.carry)+(r.pos-r.tokenStart))\n\tcopy(token, r.carry)\n\tcopy(token[len(r.carry):], src[r.tokenStart:r.pos])\n", "\ttoken := append(append(make([]byte, 0, len(r.carry)+(r.pos-r.tokenStart)), r.carry...), src[r.tokenStart:r.pos]...)\n")
@M('H3-table-change-inside-the-matrix')
def _(wt):
    # '!' becomes an ordinary token character (value mode: tokenStart, token mode: continue)
    edit(wt+'/code.go', '\t\t"a.Q#tttq()tt,tttttttttttttt;ttt." + // 0x20', '\t\t"atQ#tttq()tt,tttttttttttttt;ttt." + // 0x20')
    edit(wt+'/code.go', '\t\t"T...aa..TTaa.aaaaaaaaaaaaaa.aaa." + // 0x20', '\t\t"Ta..aa..TTaa.aaaaaaaaaaaaaa.aaa." + // 0x20')
@M('H2-harmless-rename-field')
def _(wt):
    s=open(wt+'/code.go').read()
    s=re.sub(r'\bcarry\b','pending',s)
    open(wt+'/code.go','w').write(s)
which=sys.argv[1:] or list(mutants)
for name in which:
    wt='/var/tmp/c02-mut-'+name.split('-')[0]
    sh(f'git -C /repo worktree remove --force {wt}')
    # C02_BASE=stage: start from the integrated branch (patches already in); default: /repo HEAD + repo-patches/C02
    baseref=os.environ.get('C02_BASE','HEAD')
    r=sh(f'git -C /repo worktree add --detach {wt} {baseref}')
    if r.returncode: print(name,'worktree failed',r.stdout); continue
    try:
        if baseref=='HEAD':
            r=sh('git -c user.name=selftest -c user.email=selftest@example.com am '+' '.join(sorted(glob.glob(ROOT+'/repo-patches/C02/*.patch'))), cwd=wt)
            if r.returncode: print(name,'patches do not apply',r.stdout[-500:]); continue
        if base is None:
            r=sh('go test -vet=off -count=1 ./... 2>&1 | grep "^--- FAIL" | sed "s/ (.*//" | sort', cwd=wt)
            base=set(l.strip() for l in r.stdout.split('\n') if l.strip())
        mutants[name](wt)
        r=sh('go build . ./pkg/cl', cwd=wt)
        if r.returncode: print(name,'BUILD FAILED',r.stdout[-500:]); continue
        r=sh('go test -vet=off -count=1 ./... 2>&1 | grep "^--- FAIL" | sed "s/ (.*//" | sort', cwd=wt)
        fails=set(l.strip() for l in r.stdout.split('\n') if l.strip())
        suite='suite-green' if fails<=base else 'SUITE-NEW-FAILS:'+','.join(sorted(fails-base))
        r=sh(f'./check C02 --seed 7', cwd=ROOT, e=dict(env, VERIF_REPO=wt))
        viol=[l for l in r.stdout.split('\n') if l.startswith('VIOLATION')]
        sigs=[]
        try:
            ev=json.load(open(ROOT+'/.work/run/C02/harness-evidence.json'))
            sigs=ev['coverage'].get('violation_signatures',[])
        except Exception as ex: sigs=['?']
        first=''
        if viol:
            m=re.search(r'replay=(\S+)', viol[0])
            try:
                rp=json.load(open(m.group(1)))
                first=f"{rp.get('signature')} input={rp.get('input',{}).get('text')!r} cuts={rp.get('input',{}).get('cuts')} obs={str(rp.get('observed'))[:90]} exp={str(rp.get('expected'))[:90]}"
                if rp.get('kind')=='no-failing-input-found': first='no-failing-input-found '+str(rp.get('broken'))[:100]
            except Exception as ex: first=str(ex)
        gen='gen-broken' if 'no-failing-input-found' in r.stdout or any('gen' in v for v in viol) else ''
        print(f"{name}: exit={r.returncode} {suite} violations={len(viol)} signatures={len(sigs)} {gen}\n    first: {first}")
        ents=sorted({dict(x.split('=',1) for x in s.split(' ') if '=' in x).get('entry','?') for s in sigs})
        print('    entries:', ents[:12])
    finally:
        sh(f'git -C /repo worktree remove --force {wt}')
