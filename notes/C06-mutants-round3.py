# usage: python3 notes/C06-mutants-round3.py <scratch worktree of /repo with repo-patches/C06 applied> <mutant name>; then VERIF_REPO=<scratch> ./check C06
import sys,subprocess
wt=sys.argv[1]; name=sys.argv[2]
def sub(p, a, b):
    p=wt+'/'+p; s=open(p).read(); assert a in s, (p,a); open(p,'w').write(s.replace(a,b,1))
if name=='copyseq-short':
    sub('pkg/cl/copy-seq.go','''	case slip.List:
		list := make(slip.List, len(ta))
		copy(list, ta)
		seq = list''','''	case slip.List:
		if len(ta) < 2 {
			return ta
		}
		list := make(slip.List, len(ta))
		copy(list, ta)
		seq = list''')
elif name=='revappend-short':
    sub('pkg/cl/revappend.go','	if 0 < len(list) {','	if 1 < len(list) {')
elif name=='list-noargcopy':
    sub('pkg/cl/list.go','''	list := make(slip.List, len(args))
	copy(list, args)
	return list''','''	return args''')
elif name=='mapcan-first-result':
    sub('pkg/cl/mapcan.go','''			rlist = append(rlist, tr...)
		default:''','''			if len(rlist) == 0 {
				rlist = tr
			} else {
				rlist = append(rlist, tr...)
			}
		default:''')
elif name=='harmless-apply-direct':
    sub('pkg/cl/apply.go','''	cargs := make(slip.List, len(args)-2+len(larg))
	copy(cargs, args[1:len(args)-1])
	copy(cargs[len(args)-2:], larg)
''','''	cargs := make(slip.List, 0, len(args)-2+len(larg))
	cargs = append(cargs, args[1:len(args)-1]...)
	cargs = append(cargs, larg...)
''')
elif name=='adjoin-inplace':
    sub('pkg/cl/adjoin.go','	return append(slip.List{args[0]}, list...)','	list = append(list, nil)\n	copy(list[1:], list)\n	list[0] = args[0]\n	return list')
else:
    raise SystemExit('unknown mutant')
