#!/usr/bin/env python3
"""apply mutant <name> to the slip tree in <dir>"""
import sys
d, name = sys.argv[1], sys.argv[2]
def edit(path, old, new, count=1):
    p = d + '/' + path
    s = open(p).read()
    assert old in s, (path, old)
    s = s.replace(old, new, count)
    open(p, 'w').write(s)
if name == 'butlast-reslice':
    edit('pkg/cl/butlast.go', '''				rlist := make(slip.List, size)
				copy(rlist, list[:size])
				result = rlist''', '''				result = list[:size]''')
elif name == 'copylist-identity':
    edit('pkg/cl/copy-list.go', '''		list = make(slip.List, len(ta))
		copy(list, ta)''', '''		list = ta''')
elif name == 'reverse-inplace':
    edit('pkg/cl/reverse.go', '''			nl := make(slip.List, len(ta))
			copy(nl, ta)
			max := len(ta) - 1''', '''			nl := ta
			max := len(ta) - 1''')
elif name == 'append-nocopy':
    edit('pkg/cl/append.go', '''		case nil:
			if list, ok := a.(slip.List); ok && 0 < len(list) {
				l2 := make(slip.List, len(list))
				copy(l2, list)
				a = l2
			}
			result = a''', '''		case nil:
			result = a''')
elif name == 'remove-inplace-filter':
    edit('pkg/cl/delete.go', '''	} else {
		for i := 0; i < len(seq); i++ {
			if i < sfv.start || sfv.end <= i || sfv.count <= count {
				list = append(list, seq[i])
				continue
			}''', '''	} else {
		list = seq[:0]
		for i := 0; i < len(seq); i++ {
			if i < sfv.start || sfv.end <= i || sfv.count <= count {
				list = append(list, seq[i])
				continue
			}''')
elif name == 'mapcar-inplace':
    edit('pkg/cl/mapcar.go', '''		rlist = make(slip.List, len(list))
		for i, v := range list {''', '''		rlist = list
		for i, v := range list {''')
elif name == 'cons-append-in-place':
    # cons built by appending the old list to a one element slice with spare capacity kept from a pool
    edit('pkg/cl/push.go', '''		case slip.List:
			result = append(slip.List{args[0]}, pv...)
		default:
			slip.TypePanic(s, depth, "place referral", pv, "list")
		}
		s.Set(ta, result)''', '''		case slip.List:
			// shift in place when there is room
			if len(pv) < cap(pv) {
				pv = pv[:len(pv)+1]
				copy(pv[1:], pv)
				pv[0] = args[0]
				result = pv
			} else {
				result = append(slip.List{args[0]}, pv...)
			}
		default:
			slip.TypePanic(s, depth, "place referral", pv, "list")
		}
		s.Set(ta, result)''')
elif name == 'subseq-unfix':
    edit('pkg/cl/subseq.go', '''		dup := make(slip.List, end-start)
		copy(dup, ta[start:end])
		result = dup''', '''		result = ta[start:end]''')
elif name == 'harmless-last-reslice':
    # last returns a tail of its argument (legal sharing by the language rules)
    edit('pkg/cl/last.go', '''			} else {
				rlist := make(slip.List, n)
				copy(rlist, list[len(list)-n:])
				result = rlist
			}
		}
	default:''', '''			} else {
				result = list[len(list)-n:]
			}
		}
	default:''')
elif name == 'harmless-cdr-copies':
    edit('pkg/cl/cdr.go', '''		default:
			result = list[1:]
		}
	default:
		slip.TypePanic(s, depth, "arg", list, "cons", "list")''', '''		default:
			dup := make(slip.List, len(list)-1)
			copy(dup, list[1:])
			result = dup
		}
	default:
		slip.TypePanic(s, depth, "arg", list, "cons", "list")''')
elif name == 'harmless-sort-copies':
    edit('pkg/cl/sort.go', '''	case slip.List:
		if 1 < len(ta) {
			sortObjects(s, []slip.Object(ta), keyFunc, predicate, depth)
		}''', '''	case slip.List:
		if 1 < len(ta) {
			dup := make(slip.List, len(ta))
			copy(dup, ta)
			sortObjects(s, []slip.Object(dup), keyFunc, predicate, depth)
			result = dup
		}''')
else:
    sys.exit('unknown mutant ' + name)
print('applied', name)
