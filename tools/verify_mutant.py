#!/usr/bin/env python3
"""tools/verify_mutant.py <mutant-dir>...: confirm a seeded mutant myself in a scratch worktree:
patch applies to the fixed tree, builds, adds no failing test to the pinned suite, and its
demonstration passes without the change and fails with it. Prints one line per mutant."""
import json, os, re, subprocess, sys
WT = os.environ.get("WT", "/var/tmp/repo-mut")
BASE = os.environ.get("BASE", "main")
env = dict(os.environ, GOFLAGS="-mod=mod", GOPROXY="off")
env.pop("GOSUMDB", None)

def sh(cmd, cwd=WT, timeout=1500):
    p = subprocess.run(cmd, shell=True, cwd=cwd, env=env, stdout=subprocess.PIPE, stderr=subprocess.STDOUT, text=True, timeout=timeout)
    return p.returncode, p.stdout

def reset():
    if not os.path.isdir(WT):
        sh(f"git -C /repo worktree add -q --detach {WT} {BASE}", cwd="/")
    sh(f"git checkout -q --detach {BASE}; git checkout -q -- .; git clean -fdq")

def failing():
    rc, out = sh("go test -json -vet=off -count=1 -timeout 20m ./... 2>/dev/null")
    st = {}
    for line in out.split("\n"):
        if line.startswith("{"):
            try: ev = json.loads(line)
            except Exception: continue
            if ev.get("Test") and ev.get("Action") in ("pass", "fail"):
                st[ev["Package"].replace("github.com/ohler55/slip/", "") + "::" + ev["Test"]] = ev["Action"]
    return {k for k, v in st.items() if v == "fail"}, set(st)

base_cache = os.environ.get("BASE_CACHE", "/var/tmp/mutant-baseline.json")
def baseline():
    head = sh("git rev-parse HEAD")[1].strip()
    if os.path.exists(base_cache):
        d = json.load(open(base_cache))
        if d.get("head") == head:
            return set(d["fail"]), set(d["all"])
    reset()
    f, a = set(), set()
    for _ in range(2):  # union over two runs: environment-dependent tests
        f2, a2 = failing(); f |= f2; a |= a2
    json.dump({"head": head, "fail": sorted(f), "all": sorted(a)}, open(base_cache, "w"))
    return f, a

def main():
    reset()
    bfail, ball = baseline()
    for d in sys.argv[1:]:
        d = d.rstrip("/")
        md = open(os.path.join(d, "demo.md")).read() if os.path.exists(os.path.join(d, "demo.md")) else ""
        m = re.search(r"cp\s+\S*demo_test\.go\s+(\S+)", md)
        dest = m.group(1) if m else None
        if dest:
            dest = re.sub(r"^/tmp/mut\d?-C\d+/", "", dest)
            dest = re.sub(r"^<worktree>/|^\$WT/|^\$W/|^\./", "", dest)
            if dest.endswith("/"): dest += "zz_seeded_demo_test.go"
        m = re.search(r"(go test [^\n]*-run[^\n]*)", md) or re.search(r"(go test [^\n]*\./test/\S+)", md)
        cmd = m.group(1).strip() if m else None
        if cmd:
            cmd = re.sub(r"/tmp/mut\d?-C\d+", WT, cmd).split("|")[0].split("#")[0].strip()
        res = {"dir": d}
        if not dest or not cmd:
            print(f"{d}: CANNOT PARSE demo.md (dest={dest} cmd={cmd})"); continue
        reset()
        os.makedirs(os.path.dirname(os.path.join(WT, dest)), exist_ok=True)
        sh(f"cp {d}/demo_test.go {dest}")
        rc0, out0 = sh(cmd)
        rc, out = sh(f"git apply {d}/patch.diff")
        if rc != 0:
            print(f"{d}: PATCH DOES NOT APPLY"); continue
        rcb, outb = sh("go build ./... 2>&1 | grep -v 'main is undeclared\\|^#' ")
        rc1, out1 = sh(cmd)
        os.remove(os.path.join(WT, dest))
        f, a = failing()
        new = sorted(f - bfail)
        # a test that fails in the loaded full run but passes when re-run alone (mutant still applied)
        # is timing-flaky, not a new failing test: re-run each candidate alone up to 3 times
        still = []
        for t in new:
            pkg, name = t.split("::", 1)
            passed = False
            for _ in range(3):
                rcx, outx = sh(f"go test -vet=off -count=1 -timeout 10m ./{pkg} -run '^{name.split('/')[0]}$' 2>&1 | tail -5")
                if re.search(r"^ok\s", outx, re.M):
                    passed = True; break
            if not passed:
                still.append(t)
        flaky = [t for t in new if t not in still]
        new = still
        # tests that vanished because a package panicked count as new failures too
        ok = (rc0 == 0 and rc1 != 0 and not new and not outb.strip())
        print(f"{d}: demo_without={'PASS' if rc0 == 0 else 'FAIL'} demo_with={'FAIL' if rc1 != 0 else 'PASS'} build={'ok' if not outb.strip() else 'ERR'} new_failing_tests={new[:5]} flaky_rerun_pass={flaky[:5]} => {'CONFIRMED' if ok else 'NOT CONFIRMED'}")
        json.dump({"confirmed": ok, "demo_without_rc": rc0, "demo_with_rc": rc1, "new_failing": new, "demo_cmd": cmd, "demo_dest": dest,
                   "base": BASE}, open(os.path.join(d, "confirm.json"), "w"), indent=1)
    reset()

main()
