#!/usr/bin/env python3
"""tools/resweep.py <n> <ID>...: re-run the quick check of every seeded mutant of the given properties
against the framework as it is now (checkout /var/tmp/verif-in<n>, scratch worktree
/var/tmp/repo-intake-<n>) and record the result as meta.json["latest_check_result"].
A patch that no longer applies (a later fix: commit rewrote the hunk) is recorded as such."""
import glob, json, os, re, subprocess, sys
n, ids = sys.argv[1], sys.argv[2:]
root = os.path.dirname(os.path.dirname(os.path.abspath(__file__)))
checkout = f"/var/tmp/verif-in{n}"
wt = f"/var/tmp/repo-intake-{n}"
env = dict(os.environ, WT=wt, BASE=os.environ.get("BASE", "main"), GOFLAGS="-mod=mod", GOPROXY="off")
head = subprocess.run(["git", "-C", checkout, "rev-parse", "--short", "HEAD"], stdout=subprocess.PIPE, text=True).stdout.strip()
repo = subprocess.run(["git", "-C", "/repo", "rev-parse", "--short", "HEAD"], stdout=subprocess.PIPE, text=True).stdout.strip()
for pid in ids:
    if "-" in pid:  # one mutant, e.g. C05-12
        dirs, pid = [os.path.join(root, "seeded", pid)], pid.split("-")[0]
    else:
        dirs = sorted(glob.glob(os.path.join(root, "seeded", pid + "-*")), key=lambda d: int(d.rsplit("-", 1)[1]))
    for d in dirs:
        q = subprocess.run([os.path.join(checkout, "tools", "mutant_check.sh"), os.path.join(d, "patch.diff"), pid],
                           cwd=checkout, env=env, stdout=subprocess.PIPE, stderr=subprocess.STDOUT, text=True)
        res = q.stdout.strip().split("\n")[-1]
        if "PATCH DOES NOT APPLY" in q.stdout:
            verdict = "patch-no-longer-applies"
        elif re.search(r"violations=[1-9]", res):
            verdict = "VIOLATION (no-failing-input-found)" if "no-failing-input-found" in res else "VIOLATION"
        elif "exit=2" in res:
            verdict = "machinery-error"
        else:
            verdict = "missed"
        print(os.path.basename(d), verdict, "|", res[:200], flush=True)
        mp = os.path.join(d, "meta.json")
        try: meta = json.load(open(mp))
        except Exception: meta = {}
        meta["latest_check_result"] = {"quick_seed_1": verdict, "verif_commit": head, "repo_commit": repo, "line": res[:300]}
        json.dump(meta, open(mp, "w"), indent=1)
subprocess.run(["git", "-C", "/repo", "worktree", "remove", "--force", wt])
