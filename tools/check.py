#!/usr/bin/env python3
"""./check <id> [--tier quick|thorough] [--seed N] [--replay path]

One property check = extract (regenerate Gen/*.lean from /repo) -> lake build (model, driver,
property theorems, generated obligations) -> audit (no sorry / extra axioms; #print axioms) ->
build the Go harness against /repo's working tree with -tags verif -> run it against the compiled
model driver -> verdict lines, replay files, evidence/<id>.json.

exit 0: property held on everything explored (KNOWN-FINDING lines possible)
exit 1: VIOLATION line(s) printed
exit 2: machinery error (never a verdict about slip)
"""
import argparse, fcntl, json, os, re, subprocess, sys, time, glob, shutil

ROOT = os.path.dirname(os.path.dirname(os.path.abspath(__file__)))
REPO = os.environ.get("VERIF_REPO", "/repo")
# VERIF_WORK: private work directory (with its own copy of the lean project and harness) so that a
# scratch copy of the repository can be checked without disturbing /verif/.work and lean/.lake
ALT = os.environ.get("VERIF_WORK", "")
WORK = ALT or os.path.join(ROOT, ".work")
LEAN = os.path.join(WORK, "lean") if ALT else os.path.join(ROOT, "lean")
ALLOWED_AXIOMS = {"propext", "Classical.choice", "Quot.sound"}
FORBIDDEN = re.compile(r"\bsorry\b|\badmit\b|^axiom\s|native_decide|bv_decide|implemented_by|\bunsafe\s|maxHeartbeats 0")

GOENV = dict(os.environ, GOFLAGS="-mod=mod", GOPROXY="off", CGO_ENABLED=os.environ.get("CGO_ENABLED", "1"))
GOENV.pop("GOSUMDB", None)
if GOENV.get("GOTOOLCHAIN") == "local":
    GOENV.pop("GOTOOLCHAIN")


def log(*a):
    print(*a, file=sys.stderr, flush=True)


def run(cmd, cwd=None, env=None, timeout=None):
    p = subprocess.run(cmd, cwd=cwd, env=env, stdout=subprocess.PIPE, stderr=subprocess.STDOUT, text=True, timeout=timeout)
    return p.returncode, p.stdout


def prop_conf(pid):
    with open(os.path.join(ROOT, "props", pid + ".json")) as f:
        return json.load(f)


def strip_comments(src):
    # remove /- ... -/ (nested) and -- line comments
    out, i, depth = [], 0, 0
    while i < len(src):
        if src.startswith("/-", i):
            depth += 1; i += 2; continue
        if depth and src.startswith("-/", i):
            depth -= 1; i += 2; continue
        if depth:
            if src[i] == "\n": out.append("\n")
            i += 1; continue
        if src.startswith("--", i):
            while i < len(src) and src[i] != "\n": i += 1
            continue
        out.append(src[i]); i += 1
    return "".join(out)


def theorem_names(path):
    """fully qualified names of the theorems declared in a Lean file (namespace tracking)."""
    src = strip_comments(open(path).read())
    ns, names = [], []
    for line in src.split("\n"):
        m = re.match(r"\s*namespace\s+(\S+)", line)
        if m:
            ns.append(m.group(1)); continue
        m = re.match(r"\s*end\s+(\S+)\s*$", line)
        if m and ns and ns[-1] == m.group(1):
            ns.pop(); continue
        m = re.match(r"\s*(?:@\[[^\]]*\]\s*)?(?:private\s+|protected\s+)?theorem\s+(\S+)", line)
        if m:
            names.append(".".join(ns + [m.group(1)]))
    return names


def grep_forbidden():
    hits = []
    for path in glob.glob(os.path.join(LEAN, "SlipVerif", "**", "*.lean"), recursive=True) + [os.path.join(LEAN, "Main.lean")]:
        src = strip_comments(open(path).read())
        for n, line in enumerate(src.split("\n"), 1):
            if FORBIDDEN.search(line):
                hits.append(f"{os.path.relpath(path, LEAN)}:{n}: {line.strip()}")
    return hits


def audit(pid, modules):
    """#print axioms for every theorem of the given theorem modules."""
    names = []
    for mod in modules:
        path = os.path.join(LEAN, mod.replace(".", "/") + ".lean")
        names += [(mod, n) for n in theorem_names(path)]
    os.makedirs(WORK, exist_ok=True)
    apath = os.path.join(WORK, f"Audit{pid}.lean")
    with open(apath, "w") as f:
        for mod in modules:
            f.write(f"import {mod}\n")
        for _, n in names:
            f.write(f"#print axioms {n}\n")
    rc, out = run(["lake", "env", "lean", apath], cwd=LEAN)
    if rc != 0:
        return None, "audit failed:\n" + out
    res = {}
    # "'name' depends on axioms: [a, b]" or "'name' does not depend on any axioms"
    for m in re.finditer(r"'([^']+)' (depends on axioms: \[([^\]]*)\]|does not depend on any axioms)", out.replace("\n", " ")):
        axs = [a.strip() for a in (m.group(3) or "").split(",") if a.strip()]
        res[m.group(1)] = axs
    bad = []
    for _, n in names:
        if n not in res:
            bad.append(f"{n}: no #print axioms output")
        elif not set(res[n]) <= ALLOWED_AXIOMS:
            bad.append(f"{n}: axioms {res[n]}")
    if bad:
        return None, "audit: " + "; ".join(bad)
    return {"theorems": [n for _, n in names], "axioms": sorted({a for v in res.values() for a in v})}, None


GENREF = os.path.join(ROOT, "lean", "GenRef")


def import_closure(modules):
    """SlipVerif modules reachable from the given ones through `import SlipVerif.…` lines."""
    seen, todo = set(), list(modules)
    while todo:
        m = todo.pop()
        if m in seen:
            continue
        seen.add(m)
        path = os.path.join(LEAN, m.replace(".", "/") + ".lean")
        if not os.path.exists(path):
            continue
        for line in open(path):
            mm = re.match(r"\s*import\s+(SlipVerif\.\S+)", line)
            if mm:
                todo.append(mm.group(1))
    return seen


def gen_deps(conf):
    """names of the Gen modules (file stems) the property's theorem and obligation modules depend on."""
    clo = import_closure(conf.get("theorem_modules", []) + conf.get("gen_modules", []))
    return sorted(m.split(".")[-1] for m in clo if m.startswith("SlipVerif.Gen."))


def gen_differs(name):
    """True when the regenerated Gen/<name>.lean differs from the committed reference copy
    (lean/GenRef/<name>.lean = what the extractor produced for the tree the proofs were written for)."""
    ref = os.path.join(GENREF, name + ".lean")
    cur = os.path.join(LEAN, "SlipVerif", "Gen", name + ".lean")
    if not os.path.exists(ref):
        return False
    try:
        return open(ref).read() != open(cur).read()
    except OSError:
        return True


def restore_ref(names):
    ok = True
    for n in names:
        ref = os.path.join(GENREF, n + ".lean")
        if os.path.exists(ref):
            shutil.copyfile(ref, os.path.join(LEAN, "SlipVerif", "Gen", n + ".lean"))
        else:
            ok = False
    return ok


def main():
    ap = argparse.ArgumentParser()
    ap.add_argument("id")
    ap.add_argument("--tier", default=os.environ.get("VERIF_TIER", "quick"))
    ap.add_argument("--seed", type=int, default=int(os.environ.get("VERIF_SEED", "1")))
    ap.add_argument("--replay", default="")
    args = ap.parse_args()
    pid = args.id
    conf = prop_conf(pid)
    t0 = time.time()
    os.makedirs(WORK, exist_ok=True)
    os.makedirs(os.path.join(ROOT, "evidence"), exist_ok=True)
    rundir = os.path.join(WORK, "run", pid)
    os.makedirs(rundir, exist_ok=True)
    hev = os.path.join(rundir, "harness-evidence.json")
    if os.path.exists(hev) and not args.replay:
        os.remove(hev)

    gen_broken = None  # (module, lean error) when a generated obligation no longer builds
    lock = open(os.path.join(WORK, "build.lock"), "w")
    fcntl.flock(lock, fcntl.LOCK_EX)
    try:
        if ALT:
            run(["rsync", "-a", "--delete", "--exclude", "SlipVerif/Gen", os.path.join(ROOT, "lean") + "/", LEAN + "/"])
        # 1. extract: regenerate Gen/*.lean from the repository's current sources
        rc, out = run(["go", "run", ".", "-repo", REPO, "-out", os.path.join(LEAN, "SlipVerif", "Gen")],
                      cwd=os.path.join(ROOT, "extract"), env=GOENV)
        reference_tables = []  # Gen modules replaced by their committed reference copy for this run
        if rc != 0 and re.search(r"^EXTRACT-FAILED \S+: ", out, re.M):
            # (`go run` maps the extractor's exit status 3 to 1, so the marker lines decide)
            # a generator no longer understands the source it reads (renamed table, changed literal
            # shape …): the tie of every property that depends on that module is broken. The other
            # modules were regenerated. Continue with the reference copy of the failed module so that
            # the model still runs and the harness can search for a failing input.
            failed = re.findall(r"^EXTRACT-FAILED (\S+): (.*)$", out, re.M)
            if not failed or not restore_ref([n for n, _ in failed]):
                log(out); log("extractor failed"); return 2
            reference_tables += [n for n, _ in failed]
            mine = [(n, e) for n, e in failed if n in gen_deps(conf)]
            if mine:
                gen_broken = ("extract:" + mine[0][0], "the extractor can no longer regenerate Gen/%s.lean from the source: %s" % mine[0])
        elif rc != 0:
            log(out); log("extractor failed"); return 2
        run([sys.executable, os.path.join(ROOT, "tools", "gen_main.py"), LEAN])
        # 2. prove: model + driver + property theorems. With the regenerated definitions equal to the
        # reference ones a failure can only be my own (machinery error). When a regenerated module the
        # property depends on differs from its reference copy, the theorems were re-checked against what
        # the code says now and no longer hold: a broken proof obligation (K-gen), handled like a broken
        # Gen<ID> obligation — the run continues on the reference tables to search for a failing input.
        targets = ["slipmodel"] + conf.get("theorem_modules", [])
        rc, out = run(["lake", "build"] + targets, cwd=LEAN)
        if rc != 0:
            changed = [n for n in gen_deps(conf) if gen_differs(n)]
            allchanged = [os.path.basename(f)[:-5] for f in glob.glob(os.path.join(GENREF, "*.lean")) if gen_differs(os.path.basename(f)[:-5])]
            if not allchanged:
                log(out); log("lake build failed for " + " ".join(targets)); return 2
            first_err = out[-4000:]
            restore_ref(allchanged)
            reference_tables += allchanged
            rc2, out2 = run(["lake", "build"] + targets, cwd=LEAN)
            if rc2 != 0:
                log(out2); log("lake build failed for " + " ".join(targets) + " (also on the reference tables)"); return 2
            if changed and not gen_broken:
                gen_broken = ("theorems-over:" + ",".join(changed), first_err)
            elif not changed:
                log("note: regenerated modules " + ",".join(allchanged) + " (not used by this property) broke the driver build; running on their reference copies")
        # 2b. generated obligations (facts about the code as extracted now): failure = K-gen broken
        for mod in ([] if gen_broken else conf.get("gen_modules", [])):
            rc, out = run(["lake", "build", mod], cwd=LEAN)
            if rc != 0:
                gen_broken = (mod, out[-4000:])
                break
        # 3. audit
        hits = grep_forbidden()
        if hits:
            log("forbidden tokens:\n" + "\n".join(hits)); return 2
        mods = conf.get("theorem_modules", []) + ([] if gen_broken else conf.get("gen_modules", []))
        aud, err = audit(pid, mods)
        if err:
            log(err); return 2
        leanchecker = None
        if args.tier == "thorough":
            rc, out = run(["lake", "env", "leanchecker"] + mods, cwd=LEAN)
            leanchecker = (rc == 0)
            if rc != 0:
                log(out); log("leanchecker rejected a module"); return 2
        # 4. harness, built from the repository's current working tree
        hdir = os.path.join(WORK, "harness-src")
        run(["rsync", "-a", "--delete", os.path.join(ROOT, "harness") + "/", hdir + "/"])
        shutil.copyfile(os.path.join(REPO, "go.sum"), os.path.join(hdir, "go.sum"))
        modtxt = open(os.path.join(hdir, "go.mod")).read()
        open(os.path.join(hdir, "go.mod"), "w").write(re.sub(r"(replace github.com/ohler55/slip => ).*", r"\g<1>" + REPO, modtxt))
        vh = os.path.join(WORK, "vh")
        # hook-dependent harness code is guarded by the extra tag `verifhooks`, switched on when the
        # repository carries the verif hook files (pkg/repl/verif_on.go)
        tags = "verif"
        if os.path.exists(os.path.join(REPO, "pkg", "repl", "verif_on.go")):
            tags += ",verifhooks"
        if os.environ.get("VERIF_EXTRA_TAGS"):
            tags += "," + os.environ["VERIF_EXTRA_TAGS"]
        rc, out = run(["go", "build", "-tags", tags, "-o", vh, "./cmd/vh"], cwd=hdir, env=GOENV)
        if rc != 0:
            # the repository no longer compiles with the harness: report as machinery error
            log(out); log("harness build failed"); return 2
        vhp = os.path.join(rundir, "vh")
        shutil.copyfile(vh, vhp); os.chmod(vhp, 0o755)
    finally:
        fcntl.flock(lock, fcntl.LOCK_UN)

    # 5. run
    cmd = [vhp, pid, "--tier", args.tier, "--seed", str(args.seed), "--root", ROOT, "--repo", REPO,
           "--model", os.path.join(LEAN, ".lake", "build", "bin", "slipmodel")]
    if args.replay:
        cmd += ["--replay", args.replay]
    if gen_broken:
        cmd += ["--gen-broken", gen_broken[0]]
        open(os.path.join(rundir, "gen-broken.txt"), "w").write(gen_broken[1])
    env = dict(os.environ, GOMEMLIMIT="8GiB")
    p = subprocess.run(cmd, cwd=rundir, env=env, stdout=subprocess.PIPE, text=True)
    sys.stdout.write(p.stdout)
    rc = p.returncode
    if rc not in (0, 1):
        log(f"harness exited with {rc}"); return 2
    violations = [l for l in p.stdout.split("\n") if l.startswith("VIOLATION ")]
    if gen_broken and not violations:
        # the obligation is broken and the harness found no failing input
        os.makedirs(os.path.join(ROOT, "replay"), exist_ok=True)
        rp = os.path.join(ROOT, "replay", f"{pid}-{args.seed}-gen.json")
        json.dump({"property": pid, "kind": "no-failing-input-found", "broken": {"obligation": gen_broken[0], "lean_error": gen_broken[1]},
                   "seed": args.seed, "tier": args.tier}, open(rp, "w"), indent=1)
        print(f"VIOLATION property={pid} replay={rp} no-failing-input-found")
        rc = 1
    if (rc == 1) != bool(violations or gen_broken):
        log("harness exit code and VIOLATION lines disagree"); return 2

    if args.replay:
        return rc
    # 6. evidence
    try:
        ev = json.load(open(hev))
    except Exception as e:
        log(f"no harness evidence: {e}"); return 2
    cov = ev["coverage"]
    ntheorems = len(aud["theorems"])
    cov["obligations"] = ntheorems + (1 if gen_broken else 0)
    cov["discharged"] = ntheorems
    cov["theorems"] = aud["theorems"]
    cov["axioms_used"] = aud["axioms"]
    cov["checker_cmd"] = "lake build " + " ".join(targets + conf.get("gen_modules", [])) + " && lake env lean .work/Audit%s.lean (#print axioms per theorem)" % pid + (" && lake env leanchecker " + " ".join(mods) if leanchecker else "")
    cov["leanchecker"] = leanchecker
    cov["trusted_base"] = conf.get("trusted_base", []) + [
        "Lean 4.33 kernel (thorough tier: also leanchecker)",
        "axioms: " + (", ".join(aud["axioms"]) or "none"),
        "Lean compiler for the slipmodel driver executable",
        "the Go correspondence harness and its generators (they bound what the tie sees)",
        "the extractor /verif/extract (go/ast) for regenerated tables",
    ]
    cov["gen_obligation_broken"] = gen_broken[0] if gen_broken else None
    cov["gen_modules_used"] = gen_deps(conf)
    cov["gen_modules_on_reference_copy"] = sorted(set(reference_tables))
    ev["level"] = conf.get("level", "proof")
    ev["assumptions"] = conf.get("assumptions", [])
    ev["wall_s"] = round(time.time() - t0, 2)
    ev["violations"] = len(violations)
    if "disagreements_checked" not in cov:
        cov["disagreements_checked"] = len(violations) + len(cov.get("known_findings_hit", []))
    out = os.path.join(ROOT, "evidence", pid + ".json")
    json.dump(ev, open(out, "w"), indent=1)
    try:
        import jsonschema
        jsonschema.validate(ev, json.load(open("/root/.vp/EVIDENCE.schema.json")))
    except ImportError:
        pass
    except Exception as e:
        log(f"evidence does not validate: {e}"); return 2
    return rc


if __name__ == "__main__":
    sys.exit(main())
