#!/usr/bin/env python3
"""tools/baseline.py [repo]: run the pinned test suite (guard OFF) and compare with BASELINE.json's
stable_pass list. Exit 0 iff every stable test still passes. Prints the missing/failed ones."""
import json, os, subprocess, sys
repo = sys.argv[1] if len(sys.argv) > 1 else "/repo"
base = json.load(open("/root/.vp/BASELINE.json"))
env = dict(os.environ, GOPROXY="off")
env.pop("GOSUMDB", None)
env.pop("GOFLAGS", None)  # the make-app tests run `go build` themselves and choke on GOFLAGS=-mod=mod; pass the flag instead (as BASELINE.json does)
want = base["stable_pass"]
status = {}
# test/gi's make-app tests need test/cl/testplugin/testplugin.so, which another package's tests build
# and remove while the suite runs (package-level timing race in the suite itself): up to 3 attempts,
# a test counts as passing if it passed in one of them (BASELINE.json itself is built from 3 runs).
for attempt in range(3):
    p = subprocess.run(["go", "test", "-mod=mod", "-json", "-vet=off", "-count=1", "-timeout", "25m", "./..."], cwd=repo, env=env,
                       stdout=subprocess.PIPE, stderr=subprocess.DEVNULL, text=True)
    for line in p.stdout.split("\n"):
        if not line.startswith("{"):
            continue
        try:
            ev = json.loads(line)
        except Exception:
            continue
        if ev.get("Test") and ev.get("Action") in ("pass", "fail", "skip"):
            k = f"{ev['Package']}::{ev['Test']}"
            if status.get(k) != "pass":
                status[k] = ev["Action"]
    bad = [t for t in want if status.get(t) != "pass"]
    if not bad:
        break
print(f"stable_pass: {len(want)}  passing now: {len(want) - len(bad)}  not passing: {len(bad)}")
for t in bad[:40]:
    print("  ", t, status.get(t, "missing"))
sys.exit(1 if bad else 0)
