#!/usr/bin/env python3
"""tools/intake_mut.py <ID> <out-dir> [round]: take the deliverables of an independent mutant agent
(<out-dir>/<n>/{patch.diff,demo_test.go,demo.md,meta.json}), confirm each in a scratch worktree
(tools/verify_mutant.py: applies, builds, adds no failing test, demo passes without / fails with),
keep the confirmed ones as seeded/<ID>-<k>/ and run the property's quick check against each.
Env: WT (scratch worktree), VERIF (framework checkout used for ./check, default cwd)."""
import glob, json, os, re, shutil, subprocess, sys
pid, out = sys.argv[1], sys.argv[2].rstrip("/")
rnd = int(sys.argv[3]) if len(sys.argv) > 3 else 3
root = os.path.dirname(os.path.dirname(os.path.abspath(__file__)))
checkout = os.environ.get("CHECKOUT", root)  # framework checkout whose ./check is run (parallel intakes need one each)
wt = os.environ.get("WT", f"/var/tmp/repo-intake-{pid}")
env = dict(os.environ, WT=wt, BASE=os.environ.get("BASE", "main"))
existing = [int(re.search(r"-(\d+)$", d).group(1)) for d in glob.glob(os.path.join(root, "seeded", pid + "-*"))]
k = max(existing + [0])
for src in sorted(glob.glob(out + "/[0-9]*")):
    if not os.path.exists(os.path.join(src, "patch.diff")):
        continue
    k += 1
    dst = os.path.join(root, "seeded", f"{pid}-{k}")
    shutil.copytree(src, dst)
    p = subprocess.run([sys.executable, os.path.join(root, "tools", "verify_mutant.py"), dst], env=env, stdout=subprocess.PIPE, stderr=subprocess.STDOUT, text=True)
    line = p.stdout.strip().split("\n")[-1]
    print(line, flush=True)
    conf = {}
    try: conf = json.load(open(os.path.join(dst, "confirm.json")))
    except Exception: pass
    if not conf.get("confirmed"):
        shutil.rmtree(dst); k -= 1
        print(f"  -> {src} NOT kept"); continue
    q = subprocess.run([os.path.join(checkout, "tools", "mutant_check.sh"), os.path.join(dst, "patch.diff"), pid], cwd=checkout, env=env, stdout=subprocess.PIPE, stderr=subprocess.STDOUT, text=True)
    res = q.stdout.strip().split("\n")[-1]
    print("  check:", res[:300], flush=True)
    caught = "VIOLATION" if re.search(r"violations=[1-9]", res) else ("machinery-error" if "exit=2" in res else "missed")
    try: meta = json.load(open(os.path.join(dst, "meta.json")))
    except Exception: meta = {}
    meta["round"] = rnd
    meta["confirmed_by_integrator"] = {"base": "/repo main", "ran": "tools/verify_mutant.py: patch applies, go build ./... clean, full suite adds no failing test vs the unmodified tree, demo passes without the patch and fails with it",
                                       "demo_cmd": conf.get("demo_cmd"), "demo_dest": conf.get("demo_dest")}
    meta["first_check_result"] = {"quick_seed_1": caught, "round": f"round {rnd}, first run", "line": res[:300]}
    json.dump(meta, open(os.path.join(dst, "meta.json"), "w"), indent=1)
    os.remove(os.path.join(dst, "confirm.json"))
subprocess.run(["git", "-C", "/repo", "worktree", "remove", "--force", wt])
