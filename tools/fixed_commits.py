#!/usr/bin/env python3
"""tools/fixed_commits.py: tie every fix:/hook patch of repo-patches/<ID>/ to its commit in /repo (by subject),
write the list as findings/<ID>.json["fix_commits"], and add a `fixed:` record for a patch none mentions."""
import email, email.header, glob, json, os, re, subprocess
root = os.path.dirname(os.path.dirname(os.path.abspath(__file__)))
log = subprocess.run(["git", "-C", "/repo", "log", "--format=%h\t%s"], stdout=subprocess.PIPE, text=True).stdout.strip().split("\n")
by_subj = {}
for line in log:
    h, s = line.split("\t", 1)
    by_subj.setdefault(re.sub(r"\s+", " ", s).strip(), h)
missing = 0
for fj in sorted(glob.glob(os.path.join(root, "findings", "C*.json"))):
    pid = os.path.basename(fj)[:-5]
    f = json.load(open(fj))
    fixed = f.setdefault("fixed", [])
    text = " ".join(x if isinstance(x, str) else json.dumps(x) for x in fixed)
    covered = set(re.findall(r"\b(\d{4})\b", text))
    for a, b in re.findall(r"\b(\d{4})-(\d{4})\b", text):
        covered |= {"%04d" % k for k in range(int(a), int(b) + 1)}
    commits = []
    for p in sorted(glob.glob(os.path.join(root, "repo-patches", pid, "*.patch"))):
        msg = email.message_from_string(open(p, errors="replace").read())
        subj = str(email.header.make_header(email.header.decode_header(msg["Subject"] or "")))
        subj = re.sub(r"\s+", " ", re.sub(r"^\[PATCH[^\]]*\]\s*", "", subj)).strip()
        h = by_subj.get(subj)
        if h is None:
            missing += 1
        commits.append({"patch": os.path.relpath(p, root), "commit": h, "subject": subj})
        num = re.search(r"(\d{4})", os.path.basename(p)).group(1)
        if subj.startswith("fix:") and num not in covered:
            fixed.append(f"fixed: property={pid} {h} ({os.path.relpath(p, root)}) {subj[4:].strip()}")
    f["fix_commits"] = commits
    json.dump(f, open(fj, "w"), indent=1, ensure_ascii=False)
print("patches without a commit in /repo:", missing)
