#!/bin/bash
# tools/seeds.sh <ID> <seed list...>  (env VERIF_REPO, TIER) : run the check per seed; print exit code, #VIOLATION, #KNOWN-FINDING, seconds
id=$1; shift
for s in "$@"; do
  t0=$(date +%s.%N)
  out=$(./check "$id" --tier "${TIER:-quick}" --seed "$s" 2>/tmp/seeds-$id-$s.err); rc=$?
  t1=$(date +%s.%N)
  echo "$id seed=$s exit=$rc violations=$(echo "$out" | grep -c '^VIOLATION') known=$(echo "$out" | grep -c '^KNOWN-FINDING') secs=$(echo "$t1 - $t0" | bc | cut -d. -f1)"
  if [ $rc -ne 0 ]; then echo "$out" | grep '^VIOLATION' | head -3; tail -3 /tmp/seeds-$id-$s.err; fi
done
