#!/usr/bin/env python3
"""Replace the as-built part of DESIGN.md (between the AS-BUILT markers) by docs/section11.md."""
import os
root = os.path.dirname(os.path.dirname(os.path.abspath(__file__)))
d = open(os.path.join(root, "DESIGN.md")).read()
s = open(os.path.join(root, "docs", "section11.md")).read()
a, b = "<!-- BEGIN AS-BUILT -->", "<!-- END AS-BUILT -->"
i, j = d.index(a) + len(a), d.index(b)
open(os.path.join(root, "DESIGN.md"), "w").write(d[:i] + "\n" + s + "\n" + d[j:])
