#!/bin/bash
# tools/run_seeded.sh [ID…]: run every seeded mutant of the given properties (default all) against its property's quick check
ids="$@"
for d in /verif/seeded/C*-[0-9]*; do
  name=$(basename $d); id=${name%%-*}
  if [ -n "$ids" ] && ! echo " $ids " | grep -q " $id "; then continue; fi
  out=$(tools/mutant_check.sh $d/patch.diff $id 2>&1 | tail -1)
  echo "$name: $out"
done
