#!/bin/bash
# tools/apply_patches.sh <ID>…: apply the not-yet-applied fix:/hook patches of repo-patches/<ID>/ to the
# staging worktree /var/tmp/repo-stage (branch `stage`, created from /repo main when missing), one commit each
# (git am). A patch whose subject is already in the history is skipped. Stops at the first conflict of an ID.
st=/var/tmp/repo-stage
if [ ! -d $st ]; then git -C /repo branch -f stage main && git -C /repo worktree add -q $st stage || exit 1; fi
for id in "$@"; do
  for p in $(ls /verif/repo-patches/$id/*.patch 2>/dev/null | sort); do
    subj=$(grep -m1 '^Subject:' "$p" | sed 's/^Subject: *\(\[PATCH[^]]*\] *\)\?//')
    # multi-line subjects: take the first line only for the comparison
    if git -C $st log --format=%s | grep -qxF -- "$subj"; then continue; fi
    if git -C $st am -q --3way "$p" >/tmp/am-$id.log 2>&1; then echo "applied $id $(basename $p): $subj"
    else echo "CONFLICT $id $(basename $p): $subj"; git -C $st am --abort; break; fi
  done
done
