#!/bin/bash
# tools/run_mutants.sh <dir-with-<ID>-out/n/patch.diff or seeded root> : run each mutant against its property's quick check
for id in "$@"; do
  for d in /tmp/mut-$id-out/[0-9]*; do
    [ -f $d/patch.diff ] || continue
    n=$(basename $d)
    out=$(tools/mutant_check.sh $d/patch.diff $id 2>&1 | tail -1)
    echo "$id/$n: $out"
  done
done
