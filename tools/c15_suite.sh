#!/bin/sh
# usage: tools/c15_suite.sh <worktree of slip>
# Runs the pinned suite in the given worktree. The tests that fail in ANY fresh worktree of the unchanged tree for
# environment reasons (plugins built offline, git tags, home directory) are skipped on both sides of a comparison.
# Prints the failing packages/tests only, then the number of ok packages (18 on the unchanged tree).
out=$(mktemp /var/tmp/c15-suite.XXXXXX)
cd "$1" && export GOFLAGS=-mod=mod GOPROXY=off && go test -vet=off -count=1 \
  -skip 'TestRequire|TestAppRun|TestMakeApp|TestFlavorGoMakeOnly|TestHistoryAdd|TestStashAdd|TestSnapshotRequire|TestSystem' \
  ./... 2>&1 | grep -E '^(FAIL|ok|---)' > "$out"
grep -v '^ok' "$out" | sort | uniq -c; echo "ok packages: $(grep -c '^ok' "$out")"
rm -f "$out"
