#!/bin/sh
# run the pinned suite in the given worktree (the 8 tests that fail in any fresh worktree of the unchanged tree are skipped);
# print the failing packages/tests only, then a count of ok packages
cd "$1" && export GOFLAGS=-mod=mod GOPROXY=off && go test -vet=off -count=1 -skip 'TestRequire|TestAppRun|TestMakeApp|TestFlavorGoMakeOnly|TestHistoryAdd|TestStashAdd|TestSnapshotRequire|TestSystem' ./... 2>&1 | grep -E '^(FAIL|ok|---)' > /var/tmp/c15-scratch/suite.out
grep -v '^ok' /var/tmp/c15-scratch/suite.out | sort | uniq -c; echo "ok packages: $(grep -c '^ok' /var/tmp/c15-scratch/suite.out)"
