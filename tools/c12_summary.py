#!/usr/bin/env python3
"""debug aid: summarise evidence/C12.json and the replay files of the last run"""
import json,glob,sys
seed=sys.argv[1] if len(sys.argv)>1 else '1'
ev=json.load(open('evidence/C12.json'))
cov=ev['coverage']
print({k:cov[k] for k in cov if k.startswith('hist_dis') or k in ('programs','agreements','tokens_compared','evaluations','distinct_nontrivial')}, ev['wall_s'], ev['violations'])
for p in sorted(glob.glob('replay/C12-%s-*.json'%seed), key=lambda x:int(x.split('-')[-1][:-5]))[:int(sys.argv[2]) if len(sys.argv)>2 else 40]:
    r=json.load(open(p))
    print(r['signature'],'|',r.get('token'),'| obs',r['observed'],'| exp',r['expected'])
