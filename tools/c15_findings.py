#!/usr/bin/env python3
"""Regenerate the C15 findings files from a triage dump of the sweep (.work/run/C15/c15-disagreements.txt).

  tools/c15_findings.py permanent <dump-of-run-on-patched-tree>    > findings/C15.json
  tools/c15_findings.py pending   <dump-of-run-on-unpatched-tree>  > findings/C15-pending.json

`permanent` = the defects that stay known findings (no small safe repair, or pinned by the suite).
`pending`   = the cells that fail on the unpatched tree ONLY because of a defect repaired by one of
              repo-patches/C15/*.patch. That file exists so that the check is also quiet on a tree where the
              patches have not been applied yet; DELETE findings/C15-pending.json once they are applied
              (from then on a regression of a repaired defect is a VIOLATION again).
Every entry was reviewed by hand through the rules below (a cell no rule explains makes the tool fail).
"""
import json, re, sys

PERMANENT = [
    (r"^dir=\^ ", "~^ stops the enclosing ~{ (or the rest of the control string) even when arguments remain, and the rest of the body is still printed; pinned by test/cl/format_test.go (\"names:~{ ~A~^~}\" => \"names: ann\")"),
    (r"^dir=\( mods=(:|@) .*arg=(text-digit-in-word|text-apostrophe|text-hyphen|text-leading-space|percent-inside)", "~:( and ~@( find words with x/text's English title caser / the first blank, not as maximal alphanumeric runs (3rd -> 3Rd, it's, foo-bar, leading blanks, newline as separator)"),
]

PENDING = [
    (r"^dir=r(\d+|v) ", "0001", "~radix,…R ignores its parameters and prints English / Roman numerals"),
    (r"params=(padchar-(dirchar|dirletter|comma)|commachar-dirchar)", "0002", "a quoted character parameter that is also a directive character or a comma is rejected"),
    (r"^rel=print-function ", "0008+0009", "princ-to-string / princ print a string with quotes (princ: only the empty string)"),
    (r"arg=non-integer", "0010", "~D ~B ~O ~X print a non-integer argument with escapes although the documentation says like ~A"),
    (r"^dir=\? .*arg=literal-control", "0011", "~? rejects nil as the (empty) argument list"),
    (r"^dir=[&t] .* ctx=(first-in-|in-)", "0020", "~& and ~T inside ~( ~[ ~{ ~? look only at the output of the enclosing block, not at the whole output so far"),
    (r"^dir=t .*params=colinc0", "0013", "~T with colinc 0 divides by zero"),
    (r"^dir=t mods=@? params=(none|colinc-only)", "0012", "~T / ~@T use 0 instead of the documented default 1 for colnum / colrel"),
    (r"^dir=r mods=:?@ params=none arg=zero", "0014", "~@R prints the empty string for 0 instead of a range error"),
    (r"arg=beyond-table", "0016", "~R silently drops the digits above 10^66"),
    (r"params=v-nil", "0017", "nil for a v parameter is rejected by ~% ~& ~~ ~| ~["),
    (r"^dir=\[ .*arg=big[+-]", "0018", "~[ raises a type error for a bignum selector"),
    (r"arg=literal-brace-after-close", "0019", "a literal } after ~} is swallowed and taken for ~:}"),
    (r"arg=(nested-with-parameter|parameterised-tilde-before-close)", "0007", "a nested block opened with a prefix parameter is not recognised by the block scanner"),
    (r"arg=(nested-(first-in-clause|last-in-clause|after-separator|adjacent)|empty-last-clause|empty-middle-clause|literal-bracket-after-separator|modifier-characters-after-separator)", "0006", "the block scanner loses a directive directly after a nested block or ~;"),
    (r"arg=[a-z:+-]*(low-triple-zero|round-tens|ends-in-round|period6)", None, None),  # English numbers, see english()
]


def english(sig):
    causes = []
    if "low-triple-zero" in sig: causes.append(("0003", "~R panics (slice bounds) when the last three digits are 000"))
    if "round-tens" in sig: causes.append(("0004", "~R prints an empty word (double / trailing blank) for twenty … ninety"))
    if "period6" in sig: causes.append(("0005", "10^18 is spelled quantillion"))
    if "ends-in-round" in sig: causes.append(("0015", "~:R prints a cardinal when the number ends in a multiple of ten"))
    return "+".join(c[0] for c in causes), "; ".join(c[1] for c in causes)


def entries(path):
    """[(signature, n, input, observed, expected)] of the sweep cells in a triage dump"""
    out, lines = [], open(path).read().split("\n")
    i = 0
    while i < len(lines):
        l = lines[i]
        if l and not l.startswith("    ") and not l.startswith("COMPOSITE"):
            m = re.match(r"\s+n=(\d+)\s+(.*)", lines[i + 1])
            obs = lines[i + 2].strip()[len("observed "):]
            exp = lines[i + 3].strip()[len("expected "):]
            out.append((l, int(m.group(1)), m.group(2), obs, exp))
            i += 4
        else:
            i += 1
    return out


def main():
    mode, path = sys.argv[1], sys.argv[2]
    perm = lambda sig: next((w for rx, w in PERMANENT if re.search(rx, sig)), None)
    findings, unexplained = [], []
    for sig, n, inp, obs, exp in entries(path):
        replay = f"{inp} => {obs}, expected {exp}" + (f" ({n} failing instances in the cell)" if n > 1 else "")
        w = perm(sig)
        if mode == "permanent":
            if w is None:
                unexplained.append(sig)
                continue
            findings.append({"property": "C15", "signature": sig, "what_fails": w, "replay": replay, "first_seen": "round 1"})
        else:
            if w is not None:
                continue  # permanent finding, lives in findings/C15.json
            hit = next(((p, d) for rx, p, d in PENDING if re.search(rx, sig)), None)
            if hit is None:
                unexplained.append(sig)
                continue
            p, d = hit if hit[0] else english(sig)
            findings.append({"property": "C15", "signature": sig, "what_fails": d + f" [repaired by repo-patches/C15/{p}-*.patch; delete this entry when applied]",
                             "replay": replay, "first_seen": "round 1", "pending_fix": p})
    if unexplained:
        sys.stderr.write("cells no rule explains:\n  " + "\n  ".join(unexplained) + "\n")
        sys.exit(1)
    doc = {"findings": findings, "fixed": []}
    if mode == "permanent":
        doc["fixed"] = FIXED
    json.dump(doc, sys.stdout, indent=1, ensure_ascii=False)
    sys.stdout.write("\n")


FIXED = [
    "fixed: property=C15 0001 ~radix,mincol,padchar,commachar,comma-intervalR ignored its parameters ((format nil \"~8R\" 64) => \"sixty four\")",
    "fixed: property=C15 0002 quoted character parameters that are directive characters or commas were rejected ((format nil \"~10,'*d\" 5) => parse-error)",
    "fixed: property=C15 0003 ~R panicked on numbers whose last three digits are zero ((format nil \"~R\" 1000) => slice bounds out of range)",
    "fixed: property=C15 0004 ~R printed an empty word for twenty…ninety ((format nil \"~R\" 20) => \"twenty \")",
    "fixed: property=C15 0005 ~R spelled 10^18 quantillion",
    "fixed: property=C15 0006 block scanners lost a directive directly after a nested block or ~; ((format nil \"~{~{~a~}~}\" '((1))) => not terminated)",
    "fixed: property=C15 0007 block scanners did not recognise a nested block opened with prefix parameters (~{ … ~2{ … ~} … ~})",
    "fixed: property=C15 0008 princ-to-string printed a string with its quotes",
    "fixed: property=C15 0009 princ wrote the empty string as two quotes",
    "fixed: property=C15 0010 ~D ~B ~O ~X ~nR printed a non-integer argument with escapes ((format nil \"~D\" \"abc\") => \"\\\"abc\\\"\")",
    "fixed: property=C15 0011 ~? rejected nil as the empty argument list",
    "fixed: property=C15 0012 ~T used 0 as the default colnum / colrel (documented: 1)",
    "fixed: property=C15 0013 ~T with colinc 0 divided by zero",
    "fixed: property=C15 0014 ~@R accepted 0 and printed nothing",
    "fixed: property=C15 0015 ~:R printed a cardinal for numbers that end in a multiple of ten ((format nil \"~:R\" 20) => \"twenty\")",
    "fixed: property=C15 0016 ~R silently dropped the digits above 10^66",
    "fixed: property=C15 0017 ~% ~& ~~ ~| ~* ~[ rejected nil for a v parameter",
    "fixed: property=C15 0018 ~[ raised a type error for a bignum selector",
    "fixed: property=C15 0019 ~{ … ~} swallowed a literal } that follows the closing ~}",
    "fixed: property=C15 0020 ~& and ~T inside ~( ~[ ~{ ~? ignored the output before the block ((format nil \"abc~%~[~&x~]\" 0) => \"abc\\n\\nx\")",
]

if __name__ == "__main__":
    main()
