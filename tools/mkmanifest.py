#!/usr/bin/env python3
"""Rebuild MANIFEST.json from props/*.json (claimed checks) and props/not_applicable.json."""
import glob, json, os
root = os.path.dirname(os.path.dirname(os.path.abspath(__file__)))
ids = [json.loads(l)["id"] for l in open(os.path.join(root, "properties.jsonl"))]
checks, claimed = [], set()
for p in sorted(glob.glob(os.path.join(root, "props", "C*.json"))):
    c = json.load(open(p))
    if not c.get("claimed", True):
        continue
    claimed.add(c["id"])
    checks.append({
        "property_id": c["id"],
        "quick_cmd": f"./check {c['id']} --tier quick",
        "thorough_cmd": f"./check {c['id']} --tier thorough",
        "evidence_file": f"/verif/evidence/{c['id']}.json",
        "replay_cmd_template": f"./check {c['id']} --replay {{path}}",
        "engine": "lean4+vh",
        "level_claimed": {"category": c.get("level", "proof"), "text": c["level_text"], "design_ref": c.get("design_ref", "")},
        "level_note": c["level_note"],
        "technique": c["technique"],
    })
na_path = os.path.join(root, "props", "not_applicable.json")
na_reasons = json.load(open(na_path)) if os.path.exists(na_path) else {}
na = [{"property_id": i, "reason": na_reasons.get(i, "check not built yet (work in progress; see DESIGN.md section 6)")} for i in ids if i not in claimed]
hooks_path = os.path.join(root, "props", "hooks.json")
hooks = json.load(open(hooks_path))
m = {
    "version": 1,
    "setup_cmd": "./setup.sh",
    "hooks": hooks,
    "engines": [
        {"name": "lean4+vh", "path": "/verif/lean, /verif/harness, /verif/extract, /verif/tools/check.py",
         "serves_properties": sorted(claimed),
         "kind_free_text": "Lean 4 model + theorems (lake build, #print axioms audit, leanchecker in the thorough tier); Go correspondence harness running the real slip in-process against the compiled model driver (slipmodel); go/ast extractor regenerating Gen/*.lean tables from /repo"}],
    "checks": checks,
    "notes": "All checks share ./check <id>; exit 0 = held (KNOWN-FINDING lines for findings listed in findings/<id>.json), exit 1 = VIOLATION line(s), exit 2 = machinery error. See DESIGN.md.",
    "not_applicable": na,
}
json.dump(m, open(os.path.join(root, "MANIFEST.json"), "w"), indent=1)
print("claimed:", sorted(claimed))
