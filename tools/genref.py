#!/usr/bin/env python3
"""tools/genref.py [--update|--check]: lean/GenRef/*.lean is the committed reference copy of the
regenerated modules lean/SlipVerif/Gen/*.lean for the tree the proofs were written for (/repo's
HEAD). tools/check.py falls back to it when a regenerated module breaks the build of the model or
of a theorem module (a broken proof obligation), so that the harness can still run the model and
search for a failing input. --update copies Gen -> GenRef (run it on the UNCHANGED tree, after
./setup.sh, whenever an extractor or a fix: commit changed what is generated); --check reports
differences (exit 1)."""
import filecmp, glob, os, shutil, sys
ROOT = os.path.dirname(os.path.dirname(os.path.abspath(__file__)))
GEN = os.path.join(ROOT, "lean", "SlipVerif", "Gen")
REF = os.path.join(ROOT, "lean", "GenRef")
mode = sys.argv[1] if len(sys.argv) > 1 else "--check"
gen = {os.path.basename(f) for f in glob.glob(os.path.join(GEN, "*.lean"))}
ref = {os.path.basename(f) for f in glob.glob(os.path.join(REF, "*.lean"))}
if mode == "--update":
    os.makedirs(REF, exist_ok=True)
    for f in ref - gen:
        os.remove(os.path.join(REF, f))
    for f in gen:
        shutil.copyfile(os.path.join(GEN, f), os.path.join(REF, f))
    print("GenRef updated:", len(gen), "modules")
else:
    bad = sorted((gen ^ ref) | {f for f in gen & ref if not filecmp.cmp(os.path.join(GEN, f), os.path.join(REF, f), shallow=False)})
    if bad:
        print("GenRef differs from Gen:", " ".join(bad)); sys.exit(1)
    print("GenRef matches Gen")
