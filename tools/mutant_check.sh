#!/bin/bash
# tools/mutant_check.sh <patch.diff> <ID> [more IDs…]: apply the patch to a scratch copy of the
# (fixed) repository, run the quick checks of the given properties, undo. Env: BASE (branch/commit,
# default stage), TIER, SEED.
patch=$1; shift
wt=${WT:-/var/tmp/repo-mut}
base=${BASE:-main}
if [ ! -d $wt ]; then git -C /repo worktree add -q --detach $wt $base; fi
git -C $wt checkout -q --detach $base 2>/dev/null; git -C $wt checkout -q -- . ; git -C $wt clean -fdq
git -C $wt apply "$patch" || { echo "PATCH DOES NOT APPLY: $patch"; exit 3; }
for id in "$@"; do
  out=$(VERIF_REPO=$wt ./check $id --tier ${TIER:-quick} --seed ${SEED:-1} 2>/tmp/mutant-$id.err); rc=$?
  echo "$(basename $(dirname $patch)) $id exit=$rc violations=$(echo "$out" | grep -c '^VIOLATION') $(echo "$out" | grep '^VIOLATION' | head -1 | cut -c1-150)"
  [ $rc -eq 2 ] && tail -3 /tmp/mutant-$id.err
done
git -C $wt checkout -q -- . ; git -C $wt clean -fdq
