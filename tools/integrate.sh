#!/bin/sh
# tools/integrate.sh <ID>: merge branch slice-<ID> into /verif main; regenerate generated files
id=$1
cd /verif
git merge --no-edit "slice-$id" >/tmp/merge-$id.log 2>&1 || true
# generated files and run outputs: resolve by regenerating / taking theirs
for f in $(git diff --name-only --diff-filter=U); do
  case "$f" in
    lean/Main.lean|lean/SlipVerif.lean|MANIFEST.json) git checkout --ours -- "$f" 2>/dev/null; git add "$f";;
    evidence/*) git checkout --theirs -- "$f"; git add "$f";;
    *) echo "CONFLICT: $f";;
  esac
done
python3 tools/gen_main.py lean
git status --short | grep -v '^??' | head -20
