#!/bin/sh
# tools/integrate.sh <ID>: merge branch slice-<ID> into /verif main; regenerate generated files
id=$1
cd /verif
git merge --no-edit --no-commit "slice-$id" >/tmp/merge-$id.log 2>&1 || true
for f in $(git diff --name-only --diff-filter=U); do
  case "$f" in
    lean/Main.lean|lean/SlipVerif.lean|MANIFEST.json|.gitignore|tools/check.py) git checkout --ours -- "$f" 2>/dev/null; git add "$f";;
    evidence/*) git checkout --ours -- "$f" 2>/dev/null; git add -f "$f";;
    *) echo "CONFLICT: $f";;
  esac
done
python3 tools/gen_main.py lean
git add lean/Main.lean lean/SlipVerif.lean
if git diff --name-only --diff-filter=U | grep -q .; then echo "unresolved conflicts remain"; exit 1; fi
git commit -qm "merge slice-$id" && echo "merged $id"
