#!/usr/bin/env python3
"""tools/apply_patches.py <ID>…: apply the not-yet-applied fix:/hook patches of repo-patches/<ID>/ to the
staging worktree /var/tmp/repo-stage (branch `stage`, created from /repo main when missing), one commit
each (git am --3way). A patch whose subject is already in the history is skipped. Stops at the first
conflict of an ID (git am --abort) and reports it."""
import email, email.header, glob, os, re, subprocess, sys
ST = "/var/tmp/repo-stage"
def sh(*a, **k): return subprocess.run(a, stdout=subprocess.PIPE, stderr=subprocess.STDOUT, text=True, **k)
if not os.path.isdir(ST):
    sh("git", "-C", "/repo", "branch", "-f", "stage", "main"); r = sh("git", "-C", "/repo", "worktree", "add", "-q", ST, "stage")
    if r.returncode: print(r.stdout); sys.exit(1)
APPLIED = "/verif/repo-patches/APPLIED.txt"  # patches already integrated into /repo main (relative paths)
applied = set(open(APPLIED).read().split()) if os.path.exists(APPLIED) else set()
def subjects(): return set(sh("git", "-C", ST, "log", "--format=%s").stdout.split("\n"))
for pid in sys.argv[1:]:
    have = subjects()
    for p in sorted(glob.glob(f"/verif/repo-patches/{pid}/*.patch")):
        msg = email.message_from_string(open(p, errors="replace").read())
        subj = str(email.header.make_header(email.header.decode_header(msg["Subject"] or "")))
        subj = re.sub(r"\s+", " ", re.sub(r"^\[PATCH[^\]]*\]\s*", "", subj)).strip()
        rel = os.path.relpath(p, "/verif/repo-patches")
        if rel in applied or subj in have: continue
        r = sh("git", "-C", ST, "am", "-q", "--3way", p)
        if r.returncode == 0:
            print(f"applied {pid} {os.path.basename(p)}: {subj}"); have.add(subj)
            open(APPLIED, "a").write(rel + "\n")
        else:
            print(f"CONFLICT {pid} {os.path.basename(p)}: {subj}\n{r.stdout[-600:]}"); sh("git", "-C", ST, "am", "--abort"); break
