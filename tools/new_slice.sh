#!/bin/sh
# tools/new_slice.sh <ID>: create a private worktree of /verif for building one property slice
set -e
id=$1
dir=/var/tmp/vw-$id
git -C /verif worktree add -q "$dir" -b "slice-$id" HEAD
echo "$dir"
