#!/usr/bin/env python3
"""Maintenance aid for findings/C04.json (never run by ./check).

    C04_DUMP_FINDINGS=/var/tmp/c04-dump.json VERIF_REPO=<tree with repo-patches/C04 applied> ./check C04
    tools/c04_mkfindings.py /var/tmp/c04-dump.json          # review the diff of findings/C04.json!

The harness writes every unexcused *sweep cell* of the run (signature, call form, observed,
expected) to the dump; this script merges them into findings/C04.json (existing entries and the
"fixed" list are kept). Only run it on a tree whose disagreements have been reviewed: each entry
becomes an excuse for exactly that signature."""
import json, os, sys

root = os.path.dirname(os.path.dirname(os.path.abspath(__file__)))
path = os.path.join(root, "findings", "C04.json")
cur = json.load(open(path))
dump = json.load(open(sys.argv[1]))
have = {f["signature"] for f in cur["findings"]}
for f in dump["findings"]:
    if f["signature"] in have:
        continue
    sig = f["signature"]
    what = f["what_fails"]
    if sig.startswith("builtin=") and " static " in sig:
        what = "documented lambda list and CheckArgCount literal disagree (static table): " + what
    elif sig.startswith("builtin="):
        what = "accepted argument counts differ from the documented lambda list: " + what
    cur["findings"].append({"property": "C04", "signature": sig, "what_fails": what[:400],
                            "replay": f["replay"], "first_seen": f["first_seen"]})
cur["findings"].sort(key=lambda f: (not f["signature"].startswith("lambda"), f["signature"]))
json.dump(cur, open(path, "w"), indent=1, ensure_ascii=False)
print(len(cur["findings"]), "findings")
